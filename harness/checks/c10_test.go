//go:build verif

package checks

import (
	"bytes"
	"encoding/hex"
	"fmt"
	"math/big"
	"math/rand"
	"sort"
	"strings"
	"testing"
	"time"

	sdkmath "cosmossdk.io/math"
	abci "github.com/cometbft/cometbft/abci/types"
	sdk "github.com/cosmos/cosmos-sdk/types"
	banktypes "github.com/cosmos/cosmos-sdk/x/bank/types"
	transfertypes "github.com/cosmos/ibc-go/v7/modules/apps/transfer/types"
	clienttypes "github.com/cosmos/ibc-go/v7/modules/core/02-client/types"
	channeltypes "github.com/cosmos/ibc-go/v7/modules/core/04-channel/types"
	"github.com/ethereum/go-ethereum/accounts/abi"
	"github.com/ethereum/go-ethereum/common"
	"github.com/ethereum/go-ethereum/core/vm"
	"github.com/ethereum/go-ethereum/crypto"

	"github.com/haqq-network/haqq/contracts"
	erc20types "github.com/haqq-network/haqq/x/erc20/types"

	"verif/harness/evmasm"
	"verif/harness/report"
	"verif/harness/vn"
)

// C10: the peg between the two representations of every registered token pair.
//
// Events observed: after every operation of a mixed history, for every pair, the bank balances
// and supply of the pair's denom and the token contract's balanceOf/totalSupply for every
// address that takes part.  Oracle: (1) the backing inequality of the statement, evaluated on the
// observed values only; (2) a reference ledger that applies to each operation exactly the
// two-leg effect the statement allows (or none when the operation failed) — any observed
// balance or supply that differs from the ledger is reported.

func TestC10(t *testing.T) {
	r := report.Start("C10")
	defer r.Finish()
	ns := r.Cases(24, 600)
	for i := 0; i < ns; i++ {
		id := fmt.Sprintf("seq/%d", i)
		if !r.Want(id, i) {
			continue
		}
		c10Sequence(r, id)
	}
}

const (
	kCoin    = "coin-origin"
	kVoucher = "coin-origin-ibc-voucher"
	kHonest  = "erc20-origin-honest"
	kDelayed = "erc20-origin-delayed-malicious"
	kDirect  = "erc20-origin-direct-balance-manipulation"
	kProxy   = "erc20-origin-self-destructible"
)

var origThief = common.HexToAddress("0x4dC6ac40Af078661fc43823086E1513635Eeab14")

type pegPair struct {
	kind    string
	denom   string
	token   common.Address
	enabled bool
	dead    bool // the token contract destroyed itself
	gone    bool // pair deleted from the registry
	broken  bool // a violation was already reported for this pair: later states are not judged
	// reference ledger
	coin       map[common.Address]*big.Int
	tok        map[common.Address]*big.Int
	allow      map[common.Address]*big.Int // allowance of the thief over an owner (delayed-malicious)
	coinSupply *big.Int
	tokSupply  *big.Int
	burned     *big.Int // tokens destroyed by their holders (coin-origin: escrow stays)
	// ERC20-origin pairs: the voucher their coin becomes on channel end B (not a registered pair)
	vdenom string
	vch    map[common.Address]*big.Int
}

func (p *pegPair) coinOrigin() bool { return p.kind == kCoin || p.kind == kVoucher }

type pegEnv struct {
	r               *report.R
	id              string
	rng             *rand.Rand
	n               *vn.Node
	abi             abi.ABI
	pairs           []*pegPair
	who             []common.Address
	names           map[common.Address]string
	owner           vn.Account
	thief           vn.Account
	module          common.Address
	escrow, escrowB common.Address // ICS-20 escrow accounts of the two channel ends
	lb              *vn.Loopback
	follow          *pegPair
	followLeft      int
	flight          []*pegPacket
	erc20On, hookOn bool
	ops             []string
	lastLog         string
	nops            int
}

func bz(v int64) *big.Int { return big.NewInt(v) }

func (e *pegEnv) get(m map[common.Address]*big.Int, a common.Address) *big.Int {
	if v, ok := m[a]; ok {
		return v
	}
	v := new(big.Int)
	m[a] = v
	return v
}

func (e *pegEnv) track(a common.Address, name string) {
	if _, ok := e.names[a]; ok {
		return
	}
	e.names[a] = name
	e.who = append(e.who, a)
}

func (e *pegEnv) ethCall(from vn.Account, to common.Address, data []byte, gas uint64) (ok bool, res abci.ResponseDeliverTx) {
	n := e.n
	res = n.Deliver(n.EthTx(from, vn.EthArgs{Nonce: n.EthNonce(from.Eth), To: &to, Gas: gas, GasPrice: vn.HelperGasPrice, Data: data}))
	er := vn.EthResult(res)
	e.lastLog = res.Log
	if res.Code == 0 && len(er) == 1 {
		e.lastLog = "vm error: " + er[0].VmError + " ret=" + hex.EncodeToString(er[0].Ret)
	}
	return res.Code == 0 && len(er) == 1 && er[0].VmError == "", res
}

func (e *pegEnv) create(from vn.Account, init []byte) (common.Address, bool) {
	n := e.n
	nonce := n.EthNonce(from.Eth)
	res := n.Deliver(n.EthTx(from, vn.EthArgs{Nonce: nonce, Gas: 9_000_000, GasPrice: vn.HelperGasPrice, Data: init}))
	er := vn.EthResult(res)
	return vn.CreateAddress(from.Eth, nonce), res.Code == 0 && len(er) == 1 && er[0].VmError == ""
}

func (e *pegEnv) cosmos(signer vn.Account, msgs ...sdk.Msg) abci.ResponseDeliverTx {
	res := e.n.Deliver(e.n.CosmosTx(vn.CosmosArgs{Msgs: msgs, Gas: 6_000_000, Fee: vn.Coins(6_000_000)}, signer))
	e.lastLog = res.Log
	return res
}

func (e *pegEnv) pack(method string, args ...any) []byte {
	b, err := e.abi.Pack(method, args...)
	vn.Must(err)
	return b
}

func patchThief(bin []byte, thief common.Address) []byte {
	out := bytes.ReplaceAll(bin, origThief.Bytes(), thief.Bytes())
	if bytes.Equal(out, bin) {
		panic("thief address not found in contract bytecode")
	}
	return out
}

func (e *pegEnv) nextBlock() {
	e.n.EndBlock()
	e.n.Commit()
	e.n.BeginBlock(vn.BlockOpts{Dt: 2 * time.Second})
}

// observed values
func (e *pegEnv) obsCoin(p *pegPair, a common.Address) *big.Int {
	return e.n.Balance(sdk.AccAddress(a.Bytes()), p.denom).BigInt()
}
func (e *pegEnv) obsTok(p *pegPair, a common.Address) *big.Int {
	return e.n.App.Erc20Keeper.BalanceOf(e.n.Ctx(), e.abi, p.token, a)
}
func (e *pegEnv) obsTokSupply(p *pegPair) *big.Int {
	res, err := e.n.App.Erc20Keeper.CallEVM(e.n.Ctx(), e.abi, e.module, p.token, false, "totalSupply")
	if err != nil {
		return nil
	}
	out, err := e.abi.Unpack("totalSupply", res.Ret)
	if err != nil || len(out) == 0 {
		return nil
	}
	return out[0].(*big.Int)
}
func (e *pegEnv) hasCode(a common.Address) bool {
	acc := e.n.App.EvmKeeper.GetAccountWithoutBalance(e.n.Ctx(), a)
	return acc != nil && acc.IsContract()
}

func newPegEnv(r *report.R, id string) *pegEnv {
	rng := r.Rand(id)
	cfg := vn.Config{Seed: uint64(r.Seed), NumVals: 3, NumAccounts: 9, ExtraBalances: map[string]sdk.Coins{}}
	_, accs := vn.Keys(cfg)
	for i := 0; i < 5; i++ {
		cfg.ExtraBalances[accs[i].Addr.String()] = sdk.NewCoins(sdk.NewInt64Coin("utest", int64(1_000_000+rng.Intn(1_000_000))))
	}
	n := vn.New(cfg)
	e := &pegEnv{r: r, id: id, rng: rng, n: n, abi: contracts.ERC20MinterBurnerDecimalsContract.ABI, names: map[common.Address]string{},
		owner: n.Accounts[7], thief: n.Accounts[6], module: erc20types.ModuleAddress, erc20On: true, hookOn: true}
	for i := 0; i < 6; i++ {
		e.track(n.Accounts[i].Eth, fmt.Sprintf("acc%d", i))
	}
	e.track(e.thief.Eth, "thief")
	e.track(e.owner.Eth, "token-owner")
	e.track(e.module, "erc20-module")
	n.BeginBlock(vn.BlockOpts{})
	// a pair of ICS-20 channel ends connected to each other (real IBC core + transfer + erc20 middleware)
	lb, err := n.OpenLoopback(n.Accounts[8])
	if err != nil {
		r.Note("loopback: %v", err)
		return e
	}
	e.lb = lb
	e.escrow = common.BytesToAddress(transfertypes.GetEscrowAddress("transfer", lb.A))
	e.escrowB = common.BytesToAddress(transfertypes.GetEscrowAddress("transfer", lb.B))
	e.track(e.escrow, "ics20-escrow-A")
	e.track(e.escrowB, "ics20-escrow-B")
	// utest sent out on A arrives on B as a voucher: that voucher denom becomes the second coin-origin pair
	voucher := transfertypes.ParseDenomTrace("transfer/" + lb.B + "/utest").IBCDenom()
	boot := int64(400_000 + rng.Intn(100_000))
	{
		a0, a1 := n.Accounts[0], n.Accounts[1]
		res := e.cosmos(a0, transfertypes.NewMsgTransfer("transfer", lb.A, sdk.NewInt64Coin("utest", boot), a0.Addr.String(), a1.Addr.String(), clienttypes.NewHeight(1, 10_000_000), 0, ""))
		pkt, ok := vn.PacketFromEvents(res.Events)
		if res.Code != 0 || !ok {
			r.Note("bootstrap transfer failed: %.200s", res.Log)
			return e
		}
		rr, ack := lb.Recv(pkt)
		if rr.Code != 0 || !ackOK(ack) {
			r.Note("bootstrap receive failed: %.200s %s", rr.Log, ack)
			return e
		}
		if ar := lb.Ack(pkt, ack); ar.Code != 0 {
			r.Note("bootstrap ack failed: %.200s", ar.Log)
		}
	}
	// coin-origin pairs
	for _, d := range []struct{ kind, base, disp string }{{kCoin, "utest", "test"}, {kVoucher, voucher, "vtest"}} {
		meta := banktypes.Metadata{Description: "t", Base: d.base, Display: d.disp, Name: d.base, Symbol: strings.ToUpper(d.disp),
			DenomUnits: []*banktypes.DenomUnit{{Denom: d.base, Exponent: 0}, {Denom: d.disp, Exponent: 6}}}
		pair, err := n.App.Erc20Keeper.RegisterCoin(n.Ctx(), meta)
		if err != nil {
			r.Note("register coin %s: %v", d.base, err)
			continue
		}
		p := e.newPair(d.kind, d.base, pair.GetERC20Contract())
		for _, a := range e.who {
			p.coin[a] = e.obsCoin(p, a)
		}
		p.coinSupply = n.Supply(d.base).BigInt()
	}
	// ERC20-origin pairs: contracts deployed by an ordinary account, then registered
	honestInit := append(append([]byte{}, contracts.ERC20MinterBurnerDecimalsContract.Bin...), mustPack(contracts.ERC20MinterBurnerDecimalsContract.ABI, "", "Honest", "HON", uint8(6))...)
	delayedInit := append(patchThief(contracts.ERC20MaliciousDelayedContract.Bin, e.thief.Eth), mustPack(contracts.ERC20MaliciousDelayedContract.ABI, "", bz(0))...)
	directInit := append(patchThief(contracts.ERC20DirectBalanceManipulationContract.Bin, e.thief.Eth), mustPack(contracts.ERC20DirectBalanceManipulationContract.ABI, "", bz(0))...)
	var impl common.Address
	for _, d := range []struct {
		kind string
		init []byte
	}{{kHonest, honestInit}, {kDelayed, delayedInit}, {kDirect, directInit}} {
		addr, ok := e.create(e.owner, d.init)
		if !ok {
			r.Note("deploy %s failed", d.kind)
			continue
		}
		if d.kind == kHonest {
			impl = addr
		}
		e.registerToken(d.kind, addr, nil)
	}
	e.nextBlock()
	if impl != (common.Address{}) {
		pre := map[common.Address]*big.Int{}
		for i := 0; i < 5; i++ {
			pre[n.Accounts[i].Eth] = bz(int64(1_000_000 + rng.Intn(1_000_000)))
		}
		if addr, ok := e.create(e.owner, proxyInit(impl, e.owner.Eth, pre)); ok {
			e.registerToken(kProxy, addr, pre)
		} else {
			r.Note("deploy proxy failed")
		}
	}
	e.nextBlock()
	return e
}

func (e *pegEnv) registerToken(kind string, addr common.Address, pre map[common.Address]*big.Int) {
	n := e.n
	pair, err := n.App.Erc20Keeper.RegisterERC20(n.Ctx(), addr)
	if err != nil {
		e.r.Note("register %s: %v", kind, err)
		return
	}
	p := e.newPair(kind, pair.Denom, addr)
	if e.lb != nil {
		p.vdenom = transfertypes.ParseDenomTrace("transfer/" + e.lb.B + "/" + pair.Denom).IBCDenom()
	}
	if pre != nil {
		for a, v := range pre {
			p.tok[a] = new(big.Int).Set(v)
			p.tokSupply.Add(p.tokSupply, v)
		}
		return
	}
	// the owner mints tokens to the holders
	for i := 0; i < 5; i++ {
		a := n.Accounts[i].Eth
		amt := bz(int64(1_000_000 + e.rng.Intn(1_000_000)))
		if ok, res := e.ethCall(e.owner, addr, e.pack("mint", a, amt), 400_000); ok {
			p.tok[a] = amt
			p.tokSupply.Add(p.tokSupply, amt)
		} else {
			e.r.Note("mint on %s failed: %s", kind, res.Log)
		}
	}
}

func (e *pegEnv) newPair(kind, denom string, token common.Address) *pegPair {
	p := &pegPair{kind: kind, denom: denom, token: token, enabled: true, coin: map[common.Address]*big.Int{}, tok: map[common.Address]*big.Int{},
		allow: map[common.Address]*big.Int{}, vch: map[common.Address]*big.Int{}, coinSupply: new(big.Int), tokSupply: new(big.Int), burned: new(big.Int)}
	e.pairs = append(e.pairs, p)
	e.track(token, "token:"+kind)
	return p
}

func mustPack(a abi.ABI, method string, args ...any) []byte {
	b, err := a.Pack(method, args...)
	vn.Must(err)
	return b
}

// proxyInit builds a token that keeps its own storage and runs the honest implementation's code
// by DELEGATECALL, except that its owner can destroy it (selector 0xdeadbeef).  The constructor
// writes name, symbol and decimals where the implementation expects them.
func proxyInit(impl, owner common.Address, pre map[common.Address]*big.Int) []byte {
	// runtime
	rt := evmasm.New()
	kill := rt.NewLabel()
	fwd := rt.NewLabel()
	ok := rt.NewLabel()
	doKill := rt.NewLabel()
	rt.PushU(4).Op(vm.CALLDATASIZE, vm.LT).PushLabel(fwd).Op(vm.JUMPI) // size < 4 -> forward
	rt.PushU(0).Op(vm.CALLDATALOAD).PushU(224).Op(vm.SHR).PushU(0xdeadbeef).Op(vm.EQ).PushLabel(kill).Op(vm.JUMPI)
	rt.Label(fwd)
	rt.Op(vm.CALLDATASIZE).PushU(0).PushU(0).Op(vm.CALLDATACOPY)
	rt.PushU(0).PushU(0).Op(vm.CALLDATASIZE).PushU(0).PushAddr(impl).Op(vm.GAS, vm.DELEGATECALL)
	rt.Op(vm.RETURNDATASIZE).PushU(0).PushU(0).Op(vm.RETURNDATACOPY)
	rt.PushLabel(ok).Op(vm.JUMPI)
	rt.Op(vm.RETURNDATASIZE).PushU(0).Op(vm.REVERT)
	rt.Label(ok)
	rt.Op(vm.RETURNDATASIZE).PushU(0).Op(vm.RETURN)
	rt.Label(kill)
	rt.Op(vm.CALLER).PushAddr(owner).Op(vm.EQ).PushLabel(doKill).Op(vm.JUMPI)
	rt.PushU(0).PushU(0).Op(vm.REVERT)
	rt.Label(doKill)
	rt.PushAddr(owner).Op(vm.SELFDESTRUCT)
	runtime := rt.Bytes()
	// constructor: storage layout of ERC20MinterBurnerDecimals (see c10Layout)
	short := func(s string) *big.Int {
		b := make([]byte, 32)
		copy(b, s)
		b[31] = byte(len(s) * 2)
		return new(big.Int).SetBytes(b)
	}
	c := evmasm.New()
	c.Push(short("Proxy")).PushU(c10Layout.name).Op(vm.SSTORE)
	c.Push(short("PRX")).PushU(c10Layout.symbol).Op(vm.SSTORE)
	c.Push(c10Layout.decimalsWord(6)).PushU(c10Layout.decimals).Op(vm.SSTORE)
	total := new(big.Int)
	var hs []common.Address
	for a := range pre {
		hs = append(hs, a)
	}
	sort.Slice(hs, func(i, j int) bool { return bytes.Compare(hs[i][:], hs[j][:]) < 0 })
	for _, a := range hs {
		slot := crypto.Keccak256(common.LeftPadBytes(a.Bytes(), 32), common.LeftPadBytes(big.NewInt(int64(c10Layout.balances)).Bytes(), 32))
		c.Push(pre[a]).PushBytes(slot).Op(vm.SSTORE)
		total.Add(total, pre[a])
	}
	c.Push(total).PushU(c10Layout.totalSupply).Op(vm.SSTORE)
	return evmasm.InitCode([]evmasm.Step{evmasm.Raw{Code: c.Bytes()}}, []evmasm.Step{evmasm.Raw{Code: runtime}})
}

// storage layout of the compiled ERC20MinterBurnerDecimals (checked against the honest token at run time)
var c10Layout = struct {
	balances, totalSupply, name, symbol, decimals uint64
	decimalsWord                                  func(d uint8) *big.Int
}{balances: 2, totalSupply: 4, name: 5, symbol: 6, decimals: 7, decimalsWord: func(d uint8) *big.Int { return new(big.Int).Lsh(big.NewInt(int64(d)), 8) }}

// ---- reference ledger --------------------------------------------------------------------

type opErr string

func (o opErr) Error() string { return string(o) }

var bigAllow = new(big.Int).SetUint64(1_000_000_000_000_000_000)

// tokMove applies the token contract's transfer(from -> to, x) and returns the amounts of the
// Transfer events whose recipient is the module address.
func (e *pegEnv) tokMove(p *pegPair, from, to common.Address, x *big.Int) ([]*big.Int, error) {
	if e.get(p.tok, from).Cmp(x) < 0 {
		return nil, opErr("token balance too small")
	}
	var toModule []*big.Int
	switch p.kind {
	case kDirect:
		half := new(big.Int).Rsh(x, 1)
		rest := new(big.Int).Sub(x, half)
		p.tok[from] = new(big.Int).Sub(p.tok[from], x)
		p.tok[e.thief.Eth] = new(big.Int).Add(e.get(p.tok, e.thief.Eth), rest)
		p.tok[to] = new(big.Int).Add(e.get(p.tok, to), half)
		if e.thief.Eth == e.module {
			toModule = append(toModule, rest)
		}
		if to == e.module {
			toModule = append(toModule, half)
		}
	default:
		if p.kind == kDelayed && to == e.module && !p.gone {
			// the token announces an allowance over the module's escrow: the hook must refuse the transaction
			return nil, opErr("Approval event over the module's tokens")
		}
		p.tok[from] = new(big.Int).Sub(p.tok[from], x)
		p.tok[to] = new(big.Int).Add(e.get(p.tok, to), x)
		if p.kind == kDelayed {
			p.allow[to] = new(big.Int).Set(bigAllow)
		}
		if to == e.module {
			toModule = append(toModule, x)
		}
	}
	return toModule, nil
}

// hook applies the conversion that a Transfer-to-module event triggers in an Ethereum transaction.
func (e *pegEnv) hook(p *pegPair, from common.Address, amts []*big.Int) {
	if !e.erc20On || !e.hookOn || !p.enabled || p.gone {
		return
	}
	for _, x := range amts {
		if x.Sign() <= 0 {
			continue
		}
		if p.coinOrigin() {
			p.tok[e.module] = new(big.Int).Sub(e.get(p.tok, e.module), x)
			p.tokSupply.Sub(p.tokSupply, x)
			p.coin[e.module] = new(big.Int).Sub(e.get(p.coin, e.module), x)
		} else {
			p.coinSupply.Add(p.coinSupply, x)
		}
		p.coin[from] = new(big.Int).Add(e.get(p.coin, from), x)
	}
}

func (e *pegEnv) malicious(p *pegPair) bool { return p.kind == kDelayed || p.kind == kDirect }

// convertCoin: the ledger effect of MsgConvertCoin (also used by the bank wrapper and the IBC callbacks).
func (e *pegEnv) convertCoin(p *pegPair, a, recv common.Address, x *big.Int) error {
	switch {
	case !e.erc20On:
		return opErr("erc20 disabled")
	case !p.enabled || p.gone:
		return opErr("pair disabled")
	case p.dead:
		return opErr("token destroyed")
	case x.Sign() <= 0:
		return opErr("amount not positive")
	case e.get(p.coin, a).Cmp(x) < 0:
		return opErr("coin balance too small")
	}
	if p.coinOrigin() {
		p.coin[a] = new(big.Int).Sub(p.coin[a], x)
		p.coin[e.module] = new(big.Int).Add(e.get(p.coin, e.module), x)
		p.tok[recv] = new(big.Int).Add(e.get(p.tok, recv), x)
		p.tokSupply.Add(p.tokSupply, x)
		return nil
	}
	if e.malicious(p) {
		return opErr("malicious token: post-condition checks must reject")
	}
	if e.get(p.tok, e.module).Cmp(x) < 0 {
		return opErr("escrow too small")
	}
	p.coin[a] = new(big.Int).Sub(p.coin[a], x)
	p.coinSupply.Sub(p.coinSupply, x)
	_, err := e.tokMove(p, e.module, recv, x)
	return err
}

func (e *pegEnv) convertERC20(p *pegPair, a, recv common.Address, x *big.Int) error {
	switch {
	case !e.erc20On:
		return opErr("erc20 disabled")
	case !p.enabled || p.gone:
		return opErr("pair disabled")
	case p.dead:
		return opErr("token destroyed")
	case x.Sign() <= 0:
		return opErr("amount not positive")
	case e.get(p.tok, a).Cmp(x) < 0:
		return opErr("token balance too small")
	}
	if p.coinOrigin() {
		p.tok[a] = new(big.Int).Sub(p.tok[a], x)
		p.tokSupply.Sub(p.tokSupply, x)
		p.coin[e.module] = new(big.Int).Sub(e.get(p.coin, e.module), x)
		p.coin[recv] = new(big.Int).Add(e.get(p.coin, recv), x)
		return nil
	}
	if e.malicious(p) {
		return opErr("malicious token: post-condition checks must reject")
	}
	if _, err := e.tokMove(p, a, e.module, x); err != nil {
		return err
	}
	p.coinSupply.Add(p.coinSupply, x)
	p.coin[recv] = new(big.Int).Add(e.get(p.coin, recv), x)
	return nil
}

// snapshot / restore of the ledger (an operation the chain rejected has no effect)
type pegSnap struct {
	coin, tok, allow, vch        map[common.Address]*big.Int
	coinSupply, tokSupply, burnt *big.Int
}

func cpMap(m map[common.Address]*big.Int) map[common.Address]*big.Int {
	o := make(map[common.Address]*big.Int, len(m))
	for k, v := range m {
		o[k] = new(big.Int).Set(v)
	}
	return o
}

func (p *pegPair) save() pegSnap {
	return pegSnap{cpMap(p.coin), cpMap(p.tok), cpMap(p.allow), cpMap(p.vch), new(big.Int).Set(p.coinSupply), new(big.Int).Set(p.tokSupply), new(big.Int).Set(p.burned)}
}
func (p *pegPair) restore(s pegSnap) {
	p.coin, p.tok, p.allow, p.vch, p.coinSupply, p.tokSupply, p.burned = s.coin, s.tok, s.allow, s.vch, s.coinSupply, s.tokSupply, s.burnt
}

// ---- the monitor --------------------------------------------------------------------------

func (e *pegEnv) violation(p *pegPair, op, what, detail string) {
	p.broken = true
	ops := e.ops
	if len(ops) > 40 {
		ops = ops[len(ops)-40:]
	}
	e.r.Violation(e.id, p.kind+"|"+op+"|"+what, detail, map[string]any{"pair": p.kind, "denom": p.denom, "token": p.token.Hex(), "last_ops": ops, "height": e.n.Height})
}

// check compares every observed value of every pair with the ledger and evaluates the backing
// relation on the observed values.
func (e *pegEnv) check(op string, touched *pegPair) {
	for _, p := range e.pairs {
		if p.broken {
			continue
		}
		e.r.Eval(1)
		if p.vdenom != "" {
			for _, a := range e.who {
				got := e.n.App.BankKeeper.GetBalance(e.n.Ctx(), sdk.AccAddress(a.Bytes()), p.vdenom).Amount.BigInt()
				if want := e.get(p.vch, a); got.Cmp(want) != 0 {
					e.violation(p, op, "ledger:voucher-balance", fmt.Sprintf("after %s: %s holds %s of the voucher of %s on the other channel end, ledger %s", op, e.names[a], got, p.denom, want))
					break
				}
			}
			if p.broken {
				continue
			}
		}
		if p.dead || p.gone {
			// no contract: the coin side must stay as the ledger says (nothing minted or released)
			for _, a := range e.who {
				if got, want := e.obsCoin(p, a), e.get(p.coin, a); got.Cmp(want) != 0 {
					e.violation(p, op, "coin-balance-after-token-destroyed", fmt.Sprintf("%s holds %s %s, the ledger says %s", e.names[a], got, p.denom, want))
					break
				}
			}
			if got := e.n.Supply(p.denom).BigInt(); !p.broken && got.Cmp(p.coinSupply) != 0 {
				e.violation(p, op, "coin-supply-after-token-destroyed", fmt.Sprintf("supply of %s is %s, the ledger says %s", p.denom, got, p.coinSupply))
			}
			continue
		}
		ts := e.obsTokSupply(p)
		cs := e.n.Supply(p.denom).BigInt()
		escC := e.obsCoin(p, e.module)
		escT := e.obsTok(p, e.module)
		if ts == nil || escT == nil {
			e.violation(p, op, "token-unreadable", "totalSupply/balanceOf of a live registered token cannot be read")
			continue
		}
		// (1) the backing relation of the statement, on observed values only
		if p.coinOrigin() {
			if ts.Cmp(escC) > 0 {
				e.violation(p, op, "backing:token-supply-exceeds-escrowed-coins", fmt.Sprintf("after %s: ERC20 totalSupply %s > %s %s escrowed in the module account", op, ts, escC, p.denom))
				continue
			}
			if sum := new(big.Int).Add(ts, p.burned); sum.Cmp(escC) != 0 {
				e.violation(p, op, "backing:escrow-differs-from-supply-plus-holder-burns", fmt.Sprintf("after %s: totalSupply %s + burned by holders %s != escrow %s", op, ts, p.burned, escC))
				continue
			}
		} else if cs.Cmp(escT) > 0 {
			e.violation(p, op, "backing:coin-supply-exceeds-escrowed-tokens", fmt.Sprintf("after %s: supply of %s is %s > %s tokens held by the module", op, p.denom, cs, escT))
			continue
		}
		// (2) the reference ledger
		if ts.Cmp(p.tokSupply) != 0 {
			e.violation(p, op, "ledger:token-supply", fmt.Sprintf("after %s: totalSupply %s, ledger %s", op, ts, p.tokSupply))
			continue
		}
		if cs.Cmp(p.coinSupply) != 0 {
			e.violation(p, op, "ledger:coin-supply", fmt.Sprintf("after %s: supply of %s is %s, ledger %s", op, p.denom, cs, p.coinSupply))
			continue
		}
		for _, a := range e.who {
			if got, want := e.obsCoin(p, a), e.get(p.coin, a); got.Cmp(want) != 0 {
				e.violation(p, op, "ledger:coin-balance", fmt.Sprintf("after %s: %s holds %s %s, ledger %s", op, e.names[a], got, p.denom, want))
				break
			}
			got := e.obsTok(p, a)
			if want := e.get(p.tok, a); got == nil || got.Cmp(want) != 0 {
				e.violation(p, op, "ledger:token-balance", fmt.Sprintf("after %s: %s holds %v tokens of %s, ledger %s", op, e.names[a], got, p.kind, want))
				break
			}
		}
		if !p.broken {
			e.r.Count("pair_states_checked", 1)
			if p == touched {
				e.r.Count("pair_states_checked_after_own_operation", 1)
			}
		}
	}
}

// apply runs the ledger effect; the chain's verdict decides whether it stays.
// succeeded: the chain executed the operation. fn: the ledger effect (error = the ledger says the
// operation cannot succeed).
func (e *pegEnv) settle(p *pegPair, op string, succeeded bool, fn func() error) {
	var saved []pegSnap
	for _, q := range e.pairs {
		saved = append(saved, q.save())
	}
	restoreAll := func() {
		for i, q := range e.pairs {
			q.restore(saved[i])
		}
	}
	err := fn()
	e.nops++
	cls := p.kind + "/" + op
	switch {
	case succeeded && err == nil:
		e.r.Count("op_ok/"+cls, 1)
		e.r.Nontriv(cls + "/ok")
	case succeeded && err != nil:
		restoreAll()
		e.r.Count("op_ok_ledger_says_impossible/"+cls, 1)
		// the comparison below decides: an operation that the ledger cannot perform and that
		// nevertheless changed balances shows up as a ledger difference
		e.ops = append(e.ops, fmt.Sprintf("  (chain accepted; ledger: %v)", err))
	case !succeeded:
		restoreAll()
		if err == nil {
			e.r.Count("op_rejected_ledger_ok/"+cls, 1)
			if e.lastLog != "" {
				e.r.Sample("rejected-though-ledger-ok/"+cls, map[string]any{"op": e.ops[len(e.ops)-1], "log": short(e.lastLog, 300)})
			}
		} else {
			e.r.Count("op_rejected/"+cls, 1)
			e.r.Nontriv(cls + "/rejected")
		}
	}
	e.check(op, p)
}

func (e *pegEnv) amount(limit *big.Int) *big.Int {
	switch e.rng.Intn(8) {
	case 0:
		return new(big.Int).Set(limit) // everything
	case 1:
		return new(big.Int).Add(limit, bz(1)) // one too many
	case 2:
		return bz(1)
	case 3:
		return bz(int64(1 + e.rng.Intn(9)))
	}
	if limit.Sign() <= 0 {
		return bz(int64(1 + e.rng.Intn(1000)))
	}
	return new(big.Int).Add(new(big.Int).Rand(e.rng, limit), bz(1))
}

func (e *pegEnv) livePair() *pegPair {
	for tries := 0; tries < 20; tries++ {
		p := e.pairs[e.rng.Intn(len(e.pairs))]
		if !p.broken {
			return p
		}
	}
	return nil
}

func (e *pegEnv) acc() vn.Account { return e.n.Accounts[e.rng.Intn(6)] }

// holder prefers an account that owns some of the given representation.
func (e *pegEnv) holder(m map[common.Address]*big.Int) vn.Account {
	if e.rng.Intn(5) > 0 {
		start := e.rng.Intn(6)
		for i := 0; i < 6; i++ {
			a := e.n.Accounts[(start+i)%6]
			if v, ok := m[a.Eth]; ok && v.Sign() > 0 {
				return a
			}
		}
	}
	return e.acc()
}

func (e *pegEnv) logOp(format string, a ...any) {
	e.ops = append(e.ops, fmt.Sprintf(format, a...))
}

func (e *pegEnv) step() {
	p := e.livePair()
	if p == nil {
		return
	}
	n := e.n
	a := e.acc()
	k := e.rng.Intn(100)
	if e.follow == nil && e.lb != nil && e.rng.Intn(6) == 0 && e.roundTrip() {
		return
	}
	if e.follow != nil && !e.follow.broken {
		// right after a switch was thrown: conversion attempts on the pair concerned, over every path
		p = e.follow
		k = []int{5, 15, 25, 25, 40, 50, 99, 80}[e.rng.Intn(8)]
		if e.followLeft--; e.followLeft <= 0 {
			e.follow = nil
		}
	}
	switch {
	case k == 99:
		e.transferFrom(p)
	case k < 11: // MsgConvertCoin
		a = e.holder(p.coin)
		x := e.amount(e.get(p.coin, a.Eth))
		recv := e.acc().Eth
		if e.rng.Intn(2) == 0 {
			recv = a.Eth
		}
		e.logOp("%s: MsgConvertCoin %s %s -> %s", p.kind, x, e.names[a.Eth], e.names[recv])
		res := e.cosmos(a, erc20types.NewMsgConvertCoin(sdk.NewCoin(p.denom, sdkmath.NewIntFromBigInt(x)), recv, a.Addr))
		e.pairDeletion(p, res.Code == 0)
		e.settle(p, "msg-convert-coin", res.Code == 0 && !p.gone, func() error { return e.convertCoin(p, a.Eth, recv, x) })
	case k < 22: // MsgConvertERC20
		a = e.holder(p.tok)
		x := e.amount(e.get(p.tok, a.Eth))
		recv := e.acc()
		if e.rng.Intn(2) == 0 {
			recv = a
		}
		e.logOp("%s: MsgConvertERC20 %s %s -> %s", p.kind, x, e.names[a.Eth], e.names[recv.Eth])
		res := e.cosmos(a, erc20types.NewMsgConvertERC20(sdkmath.NewIntFromBigInt(x), recv.Addr, p.token, a.Eth))
		e.pairDeletion(p, res.Code == 0)
		e.settle(p, "msg-convert-erc20", res.Code == 0 && !p.gone, func() error { return e.convertERC20(p, a.Eth, recv.Eth, x) })
	case k < 34: // ERC20 transfer in a plain Ethereum transaction; to the module address = conversion
		a = e.holder(p.tok)
		to := e.module
		if e.rng.Intn(3) == 0 {
			to = e.acc().Eth
		}
		x := e.amount(e.get(p.tok, a.Eth))
		e.logOp("%s: eth transfer %s %s -> %s", p.kind, x, e.names[a.Eth], e.names[to])
		ok, _ := e.ethCall(a, p.token, e.pack("transfer", to, x), 1_500_000)
		opn := "eth-transfer-to-user"
		if to == e.module {
			opn = "eth-transfer-to-module"
		}
		e.settle(p, opn, ok, func() error {
			if p.dead {
				return nil // a call to an address without code succeeds and does nothing
			}
			logs, err := e.tokMove(p, a.Eth, to, x)
			if err != nil {
				return err
			}
			e.hook(p, a.Eth, logs)
			return nil
		})
	case k < 44: // a contract transfers to the module address, several times in one transaction
		e.batch(p, e.holder(p.tok))
	case k < 53: // bank MsgSend of the pair's denom (the wrapper converts)
		to := e.acc()
		have := new(big.Int).Add(e.get(p.coin, a.Eth), e.get(p.tok, a.Eth))
		x := e.amount(have)
		coins := sdk.NewCoins(sdk.NewCoin(p.denom, sdkmath.NewIntFromBigInt(x)))
		if e.rng.Intn(4) == 0 {
			coins = coins.Add(sdk.NewInt64Coin(vn.Denom, 5))
		}
		e.logOp("%s: bank MsgSend %s %s -> %s", p.kind, coins, e.names[a.Eth], e.names[to.Eth])
		res := e.cosmos(a, banktypes.NewMsgSend(a.Addr, to.Addr, coins))
		e.pairDeletion(p, res.Code == 0)
		e.settle(p, "bank-send-wrapper", res.Code == 0, func() error { return e.bankSend(p, a.Eth, to.Eth, x) })
	case k < 56: // bank MsgMultiSend (no conversion)
		to := e.acc()
		x := e.amount(e.get(p.coin, a.Eth))
		coins := sdk.NewCoins(sdk.NewCoin(p.denom, sdkmath.NewIntFromBigInt(x)))
		e.logOp("%s: bank MsgMultiSend %s %s -> %s", p.kind, coins, e.names[a.Eth], e.names[to.Eth])
		res := e.cosmos(a, &banktypes.MsgMultiSend{Inputs: []banktypes.Input{{Address: a.Addr.String(), Coins: coins}}, Outputs: []banktypes.Output{{Address: to.Addr.String(), Coins: coins}}})
		e.settle(p, "bank-multisend", res.Code == 0, func() error {
			if x.Sign() <= 0 {
				return opErr("amount not positive")
			}
			if e.get(p.coin, a.Eth).Cmp(x) < 0 {
				return opErr("coin balance too small")
			}
			p.coin[a.Eth] = new(big.Int).Sub(p.coin[a.Eth], x)
			p.coin[to.Eth] = new(big.Int).Add(e.get(p.coin, to.Eth), x)
			return nil
		})
	case k < 61: // a holder burns own tokens
		a = e.holder(p.tok)
		x := e.amount(e.get(p.tok, a.Eth))
		e.logOp("%s: holder burn %s by %s", p.kind, x, e.names[a.Eth])
		ok, _ := e.ethCall(a, p.token, e.pack("burn", x), 500_000)
		e.settle(p, "holder-burn", ok, func() error {
			if p.dead {
				return nil
			}
			if e.get(p.tok, a.Eth).Cmp(x) < 0 {
				return opErr("token balance too small")
			}
			p.tok[a.Eth] = new(big.Int).Sub(p.tok[a.Eth], x)
			p.tokSupply.Sub(p.tokSupply, x)
			if p.coinOrigin() {
				p.burned.Add(p.burned, x)
			}
			return nil
		})
	case k < 67: // governance switches
		switch e.rng.Intn(4) {
		case 0, 1:
			if p.gone {
				return
			}
			pair, err := n.App.Erc20Keeper.ToggleConversion(n.Ctx(), p.token.Hex())
			if err == nil {
				p.enabled = pair.Enabled
			}
			e.logOp("%s: toggle conversion -> %v", p.kind, p.enabled)
			e.r.Count("toggles/pair", 1)
			e.follow, e.followLeft = p, 2+e.rng.Intn(4)
		case 2:
			e.erc20On = !e.erc20On
			prm := n.App.Erc20Keeper.GetParams(n.Ctx())
			prm.EnableErc20 = e.erc20On
			vn.Must(n.App.Erc20Keeper.SetParams(n.Ctx(), prm))
			e.logOp("params: EnableErc20 -> %v", e.erc20On)
			e.r.Count("toggles/enable-erc20", 1)
		case 3:
			e.hookOn = !e.hookOn
			prm := n.App.Erc20Keeper.GetParams(n.Ctx())
			prm.EnableEVMHook = e.hookOn
			vn.Must(n.App.Erc20Keeper.SetParams(n.Ctx(), prm))
			e.logOp("params: EnableEVMHook -> %v", e.hookOn)
			e.r.Count("toggles/enable-evm-hook", 1)
		}
		e.check("toggle", nil)
	case k < 72: // the thief uses whatever allowance the delayed-malicious token gave it
		if p.kind != kDelayed {
			return
		}
		victim := e.module
		if e.rng.Intn(3) == 0 {
			victim = e.acc().Eth
		}
		x := e.amount(e.get(p.tok, victim))
		e.logOp("%s: thief transferFrom(%s, thief, %s)", p.kind, e.names[victim], x)
		ok, _ := e.ethCall(e.thief, p.token, e.pack("transferFrom", victim, e.thief.Eth, x), 500_000)
		e.settle(p, "thief-transfer-from:"+map[bool]string{true: "module", false: "user"}[victim == e.module], ok, func() error {
			if e.get(p.allow, victim).Cmp(x) < 0 {
				return opErr("no allowance")
			}
			if victim == e.module && !p.gone {
				// spending an allowance re-announces it (Approval event with the module as owner)
				return opErr("Approval event over the module's tokens")
			}
			if e.get(p.tok, victim).Cmp(x) < 0 {
				return opErr("token balance too small")
			}
			p.allow[victim] = new(big.Int).Sub(p.allow[victim], x)
			p.tok[victim] = new(big.Int).Sub(p.tok[victim], x)
			p.tok[e.thief.Eth] = new(big.Int).Add(e.get(p.tok, e.thief.Eth), x)
			return nil
		})
	case k < 95: // IBC packets over the loopback channel pair
		e.ibc(p, a)
	case k < 98:
		e.transferFrom(p)
	default: // the owner destroys the self-destructible token
		p = nil
		for _, q := range e.pairs {
			if q.kind == kProxy && !q.dead && !q.broken {
				p = q
			}
		}
		if p == nil || e.rng.Intn(2) != 0 {
			return
		}
		e.logOp("%s: owner destroys the token contract", p.kind)
		ok, _ := e.ethCall(e.owner, p.token, []byte{0xde, 0xad, 0xbe, 0xef}, 500_000)
		if ok && !e.hasCode(p.token) {
			p.dead = true
			e.r.Count("tokens_destroyed", 1)
			e.r.Nontriv(p.kind + "/destroyed")
		}
		e.check("destroy", p)
	}
}

// transferFrom: an approved spender moves a holder's tokens (to the module address = conversion for the holder).
func (e *pegEnv) transferFrom(p *pegPair) {
	h := e.holder(p.tok)
	sp := e.acc()
	to := e.module
	if e.rng.Intn(4) == 0 {
		to = e.acc().Eth
	}
	x := e.amount(e.get(p.tok, h.Eth))
	okA, _ := e.ethCall(h, p.token, e.pack("approve", sp.Eth, x), 500_000)
	if !okA && !p.dead {
		return
	}
	e.logOp("%s: transferFrom(%s -> %s, %s) by approved spender %s", p.kind, e.names[h.Eth], e.names[to], x, e.names[sp.Eth])
	ok, _ := e.ethCall(sp, p.token, e.pack("transferFrom", h.Eth, to, x), 1_500_000)
	opn := "transfer-from-to-user"
	if to == e.module {
		opn = "transfer-from-to-module"
	}
	e.settle(p, opn, ok, func() error {
		if p.dead {
			return nil
		}
		if e.get(p.tok, h.Eth).Cmp(x) < 0 {
			return opErr("token balance too small")
		}
		// transferFrom is the standard implementation in all four contracts
		p.tok[h.Eth] = new(big.Int).Sub(p.tok[h.Eth], x)
		p.tok[to] = new(big.Int).Add(e.get(p.tok, to), x)
		if to == e.module {
			e.hook(p, h.Eth, []*big.Int{x})
		}
		return nil
	})
	if !ok && !p.dead {
		// take the unused allowance back so that later operations start from none
		e.ethCall(h, p.token, e.pack("approve", sp.Eth, bz(0)), 500_000)
	}
}

// pairDeletion: a conversion message that meets a destroyed contract removes the pair.
func (e *pegEnv) pairDeletion(p *pegPair, txOK bool) {
	if !p.dead || p.gone {
		return
	}
	if !e.n.App.Erc20Keeper.IsERC20Registered(e.n.Ctx(), p.token) {
		p.gone = true
		e.r.Count("destroyed_pairs_deleted", 1)
	}
}

func (e *pegEnv) bankSend(p *pegPair, a, to common.Address, x *big.Int) error {
	if !e.erc20On || !p.enabled || p.gone {
		if e.get(p.coin, a).Cmp(x) < 0 {
			return opErr("coin balance too small")
		}
		p.coin[a] = new(big.Int).Sub(p.coin[a], x)
		p.coin[to] = new(big.Int).Add(e.get(p.coin, to), x)
		return nil
	}
	if p.dead {
		return opErr("token destroyed")
	}
	if new(big.Int).Add(e.get(p.coin, a), e.get(p.tok, a)).Cmp(x) < 0 {
		return opErr("coins + tokens too small")
	}
	if a == to {
		return opErr("the wrapper's post-transfer balance check cannot hold for a self-send")
	}
	if s := e.get(p.coin, a); s.Sign() > 0 {
		if err := e.convertCoin(p, a, a, new(big.Int).Set(s)); err != nil {
			return err
		}
	}
	if e.malicious(p) {
		return opErr("malicious token: post-condition checks must reject")
	}
	_, err := e.tokMove(p, a, to, x)
	return err
}

// batch: a freshly deployed contract holding tokens calls token.transfer(module, x) several times
// in one transaction, optionally with one of the calls inside a frame that reverts.
func (e *pegEnv) batch(p *pegPair, a vn.Account) {
	if p.dead {
		return
	}
	nx := 2 + e.rng.Intn(2)
	var xs []*big.Int
	total := new(big.Int)
	for i := 0; i < nx; i++ {
		x := bz(int64(1 + e.rng.Intn(5000)))
		xs = append(xs, x)
		total.Add(total, x)
	}
	variant := e.rng.Intn(4) // 0,1: all persist; 2: last call in a reverting child; 3: one transfer goes to a user
	user := e.acc().Eth
	var steps []evmasm.Step
	var child common.Address
	if variant == 2 {
		// the child transfers (from its own balance) and reverts
		c, ok := e.create(e.owner, evmasm.InitCode(nil, []evmasm.Step{
			evmasm.CallStep{Kind: evmasm.Call, To: p.token, Data: e.pack("transfer", e.module, xs[nx-1]), Fail: evmasm.Bubble}, evmasm.Revert{}}))
		if !ok {
			return
		}
		child = c
	}
	for i, x := range xs {
		to := e.module
		if variant == 3 && i == 0 {
			to = user
		}
		if variant == 2 && i == nx-1 {
			steps = append(steps, evmasm.CallStep{Kind: evmasm.Call, To: child, Data: []byte{1}, Fail: evmasm.Ignore})
			continue
		}
		steps = append(steps, evmasm.CallStep{Kind: evmasm.Call, To: p.token, Data: e.pack("transfer", to, x), Fail: evmasm.Bubble})
	}
	b, ok := e.create(e.owner, evmasm.InitCode(nil, steps))
	if !ok {
		return
	}
	e.track(b, fmt.Sprintf("batcher%d", len(e.who)))
	if child != (common.Address{}) {
		e.track(child, fmt.Sprintf("batcher-child%d", len(e.who)))
	}
	// fund the contracts with tokens: an ordinary transfer from the holder (settled like any other)
	fund := func(to common.Address, x *big.Int) bool {
		okf, _ := e.ethCall(a, p.token, e.pack("transfer", to, x), 1_500_000)
		e.logOp("%s: eth transfer %s %s -> %s (funding)", p.kind, x, e.names[a.Eth], e.names[to])
		good := false
		e.settle(p, "eth-transfer-to-contract", okf, func() error {
			_, err := e.tokMove(p, a.Eth, to, x)
			good = err == nil
			return err
		})
		return okf && good
	}
	need := new(big.Int).Set(total)
	if p.kind == kDirect {
		need.Lsh(need, 1) // the token delivers half
		need.Add(need, bz(2))
	}
	if !fund(b, need) || p.broken {
		return
	}
	if child != (common.Address{}) {
		cn := new(big.Int).Set(xs[nx-1])
		if p.kind == kDirect {
			cn.Lsh(cn, 1)
		}
		if !fund(child, cn) || p.broken {
			return
		}
	}
	e.logOp("%s: contract %s calls transfer x%d in one tx (variant %d, amounts %v)", p.kind, e.names[b], nx, variant, xs)
	okc, _ := e.ethCall(a, b, []byte{1}, 3_000_000)
	e.settle(p, fmt.Sprintf("contract-multi-transfer-to-module/variant%d", variant), okc, func() error {
		for i, x := range xs {
			to := e.module
			if variant == 3 && i == 0 {
				to = user
			}
			if variant == 2 && i == nx-1 {
				continue // reverted frame: neither the transfer nor its event exists
			}
			logs, err := e.tokMove(p, b, to, x)
			if err != nil {
				return err
			}
			e.hook(p, b, logs)
		}
		return nil
	})
}

// ---- IBC: real packets over the loopback channel pair -------------------------------------

type pegPacket struct {
	p        *pegPair // the pair whose denom the sender paid in
	from, to common.Address
	badRecv  bool // the receiver string is not an address: the receiving end answers with an error
	x        *big.Int
	pkt      channeltypes.Packet
	onB      bool // sent on end B (a voucher going home); otherwise on end A
	ret      bool // sent on end B: the unregistered voucher of the ERC20-origin pair p going home
	timeout  bool
	received bool
	ack      []byte
	done     bool
}

func ackOK(ack []byte) bool { return bytes.Contains(ack, []byte(`"result"`)) }

func (e *pegEnv) pairOfKind(kind string) *pegPair {
	for _, p := range e.pairs {
		if p.kind == kind {
			return p
		}
	}
	return nil
}

// refund: the ledger effect of a timeout or an error acknowledgement on the sending end.
func (e *pegEnv) refund(pk *pegPacket) error {
	p := pk.p
	if pk.ret {
		// minted again on end B; the voucher is no registered pair, nothing is converted
		p.vch[pk.from] = new(big.Int).Add(e.get(p.vch, pk.from), pk.x)
		return nil
	}
	if pk.onB {
		p.coinSupply.Add(p.coinSupply, pk.x) // the voucher is minted again
	} else {
		p.coin[e.escrow] = new(big.Int).Sub(e.get(p.coin, e.escrow), pk.x)
	}
	p.coin[pk.from] = new(big.Int).Add(e.get(p.coin, pk.from), pk.x)
	// erc20 middleware: the refunded coins go back to the ERC20 representation
	if !e.erc20On || p.gone {
		return nil
	}
	if p.dead {
		return nil // ConvertCoin deletes the pair and reports success
	}
	return e.convertCoin(p, pk.from, pk.from, pk.x)
}

func (e *pegEnv) ibc(p *pegPair, a vn.Account) {
	if e.lb == nil {
		return
	}
	n := e.n
	var pend, recvd []*pegPacket
	for _, pk := range e.flight {
		if pk.done || pk.p.broken {
			continue
		}
		if pk.received {
			recvd = append(recvd, pk)
		} else {
			pend = append(pend, pk)
		}
	}
	k := e.rng.Intn(10)
	switch {
	case k < 4 || (len(pend) == 0 && len(recvd) == 0): // send
		e.ibcSend(p)
	case k < 7 && len(pend) > 0: // the relayer delivers a packet
		e.ibcRecv(pend[e.rng.Intn(len(pend))])
	case k < 9 && len(recvd) > 0: // the acknowledgement comes back
		e.ibcAck(recvd[e.rng.Intn(len(recvd))])
	default: // a packet that was never delivered times out
		var cands []*pegPacket
		for _, pk := range pend {
			if pk.timeout && uint64(n.Time.UnixNano()) >= pk.pkt.TimeoutTimestamp {
				cands = append(cands, pk)
			}
		}
		if len(cands) == 0 {
			return
		}
		e.ibcTimeout(cands[e.rng.Intn(len(cands))])
	}
}

func (e *pegEnv) ibcSend(p *pegPair) {
	n := e.n
	{
		if p.vdenom != "" && e.rng.Intn(2) == 0 && anyPositive(p.vch) {
			e.ibcReturn(p)
			return
		}
		onB := p.kind == kVoucher
		ch := e.lb.A
		if onB {
			ch = e.lb.B
		}
		a := e.holder(p.coin)
		if e.rng.Intn(3) == 0 {
			a = e.holder(p.tok) // the transfer keeper converts tokens first when coins are short
		}
		have := new(big.Int).Add(e.get(p.coin, a.Eth), e.get(p.tok, a.Eth))
		if e.rng.Intn(2) == 0 {
			have = e.get(p.coin, a.Eth)
		}
		x := e.amount(have)
		to := e.acc()
		pk := &pegPacket{p: p, from: a.Eth, to: to.Eth, x: x, onB: onB}
		recvStr := to.Addr.String()
		if e.rng.Intn(6) == 0 {
			recvStr, pk.badRecv = "not-an-address", true
		}
		th, ts := clienttypes.NewHeight(1, 10_000_000), uint64(0)
		if e.rng.Intn(3) == 0 || (e.malicious(p) && e.rng.Intn(2) == 0) {
			th, ts, pk.timeout = clienttypes.ZeroHeight(), uint64(n.Time.Add(3*time.Second).UnixNano()), true
		}
		e.logOp("%s: IBC MsgTransfer %s %s -> %s on %s (timeout=%v)", p.kind, x, e.names[a.Eth], recvStr, ch, pk.timeout)
		res := e.cosmos(a, transfertypes.NewMsgTransfer("transfer", ch, sdk.NewCoin(p.denom, sdkmath.NewIntFromBigInt(x)), a.Addr.String(), recvStr, th, ts, ""))
		pkt, sent := vn.PacketFromEvents(res.Events)
		e.pairDeletion(p, res.Code == 0)
		e.settle(p, "ibc-send", res.Code == 0 && sent, func() error {
			if x.Sign() <= 0 {
				return opErr("amount not positive")
			}
			if !p.gone && p.enabled && e.erc20On && e.get(p.coin, a.Eth).Cmp(x) < 0 {
				need := new(big.Int).Sub(x, e.get(p.coin, a.Eth))
				if err := e.convertERC20(p, a.Eth, a.Eth, need); err != nil {
					return err
				}
			}
			if e.get(p.coin, a.Eth).Cmp(x) < 0 {
				return opErr("coin balance too small")
			}
			p.coin[a.Eth] = new(big.Int).Sub(p.coin[a.Eth], x)
			if onB {
				p.coinSupply.Sub(p.coinSupply, x) // a voucher going home is burned
			} else {
				p.coin[e.escrow] = new(big.Int).Add(e.get(p.coin, e.escrow), x)
			}
			return nil
		})
		if res.Code == 0 && sent {
			pk.pkt = pkt
			e.flight = append(e.flight, pk)
		}
	}
}

func (e *pegEnv) ibcRecv(pk *pegPacket) {
	n := e.n
	{
		e.logOp("%s: IBC receive of packet %d (%s from %s)", pk.p.kind, pk.pkt.Sequence, pk.x, e.names[pk.from])
		res, ack := e.lb.Recv(pk.pkt)
		e.lastLog = res.Log
		if res.Code == 0 {
			pk.received, pk.ack = true, ack
		}
		opn := "ibc-recv-home-denom-as-voucher"
		if pk.onB {
			opn = "ibc-recv-voucher-returns-home"
		}
		if pk.ret {
			opn = "ibc-recv-erc20-origin-denom-returns-home"
		}
		e.settle(pk.p, opn, res.Code == 0 && ackOK(ack), func() error {
			if pk.badRecv {
				return opErr("receiver is not an address")
			}
			if pk.timeout && uint64(n.Time.UnixNano()) >= pk.pkt.TimeoutTimestamp {
				return opErr("packet timed out")
			}
			if pk.ret {
				// released from the channel escrow to the receiver, then the middleware converts the
				// receiver's whole balance; a conversion that fails makes the whole receive fail
				p := pk.p
				if e.get(p.coin, e.escrow).Cmp(pk.x) < 0 {
					return opErr("channel escrow too small")
				}
				p.coin[e.escrow] = new(big.Int).Sub(e.get(p.coin, e.escrow), pk.x)
				p.coin[pk.to] = new(big.Int).Add(e.get(p.coin, pk.to), pk.x)
				if !e.erc20On || p.gone || !p.enabled || p.dead {
					return nil // passes through (a destroyed token: the pair is deleted, nothing converted)
				}
				return e.convertCoin(p, pk.to, pk.to, new(big.Int).Set(e.get(p.coin, pk.to)))
			}
			var q *pegPair // the pair of the denom the receiver is credited in
			if pk.onB {
				q = e.pairOfKind(kCoin)
				q.coin[e.escrow] = new(big.Int).Sub(e.get(q.coin, e.escrow), pk.x)
			} else if pk.p.kind == kCoin {
				q = e.pairOfKind(kVoucher)
				q.coinSupply.Add(q.coinSupply, pk.x)
			} else {
				// the voucher of an ERC20-origin denom is not a registered pair
				pk.p.vch[pk.to] = new(big.Int).Add(e.get(pk.p.vch, pk.to), pk.x)
				return nil
			}
			if q == nil {
				return nil
			}
			q.coin[pk.to] = new(big.Int).Add(e.get(q.coin, pk.to), pk.x)
			if !e.erc20On || q.gone || !q.enabled {
				return nil // the middleware passes the acknowledgement through
			}
			return e.convertCoin(q, pk.to, pk.to, new(big.Int).Set(e.get(q.coin, pk.to)))
		})
		if res.Code == 0 && !ackOK(ack) {
			e.r.Count("ibc_error_acks_written", 1)
		}
		if pk.ret {
			e.pairDeletion(pk.p, res.Code == 0)
			if res.Code == 0 {
				e.r.Count("erc20_origin_denoms_received_back_home", 1)
				if e.malicious(pk.p) {
					e.r.Count("malicious_erc20_origin_denoms_received_back_home", 1)
				}
			}
		}
	}
}

func (e *pegEnv) ibcAck(pk *pegPacket) {
	{
		isErr := !ackOK(pk.ack)
		e.logOp("%s: IBC acknowledgement of packet %d (error=%v)", pk.p.kind, pk.pkt.Sequence, isErr)
		res := e.lb.Ack(pk.pkt, pk.ack)
		e.lastLog = res.Log
		if res.Code == 0 {
			pk.done = true
		}
		opn := "ibc-ack-success"
		if isErr {
			opn = "ibc-ack-error-refund"
		}
		e.settle(pk.p, opn, res.Code == 0, func() error {
			if !isErr {
				return nil
			}
			return e.refund(pk)
		})
		e.pairDeletion(pk.p, res.Code == 0)
	}
}

func (e *pegEnv) ibcTimeout(pk *pegPacket) {
	{
		e.logOp("%s: IBC timeout of packet %d (%s back to %s)", pk.p.kind, pk.pkt.Sequence, pk.x, e.names[pk.from])
		res := e.lb.Timeout(pk.pkt)
		e.lastLog = res.Log
		if res.Code == 0 {
			pk.done = true
		}
		e.settle(pk.p, "ibc-timeout-refund", res.Code == 0, func() error { return e.refund(pk) })
		e.pairDeletion(pk.p, res.Code == 0)
	}
}

// roundTrip advances the journey of an ERC20-origin pair's coins out over channel end A and back
// home from end B by one stage (the furthest stage that is possible), malicious tokens first.
func (e *pegEnv) roundTrip() bool {
	var cands []*pegPair
	for _, q := range e.pairs {
		if q.vdenom != "" && !q.broken {
			cands = append(cands, q)
		}
	}
	e.rng.Shuffle(len(cands), func(i, j int) { cands[i], cands[j] = cands[j], cands[i] })
	sort.SliceStable(cands, func(i, j int) bool { return e.malicious(cands[i]) && !e.malicious(cands[j]) })
	stage := func(q *pegPair, ret, received bool) *pegPacket {
		for _, pk := range e.flight {
			if pk.p == q && !pk.done && pk.ret == ret && pk.received == received {
				return pk
			}
		}
		return nil
	}
	for _, q := range cands {
		if pk := stage(q, true, false); pk != nil {
			e.ibcRecv(pk)
			return true
		}
		if anyPositive(q.vch) {
			e.ibcReturn(q)
			return true
		}
		if pk := stage(q, false, false); pk != nil {
			// a packet whose deadline has passed is timed out (refund + conversion back) half the time
			if pk.timeout && uint64(e.n.Time.UnixNano()) >= pk.pkt.TimeoutTimestamp && e.rng.Intn(2) == 0 {
				e.ibcTimeout(pk)
			} else {
				e.ibcRecv(pk)
			}
			return true
		}
		if pk := stage(q, false, true); pk != nil && e.rng.Intn(2) == 0 {
			e.ibcAck(pk)
			return true
		}
		for _, acc := range e.n.Accounts[:6] {
			if e.get(q.coin, acc.Eth).Sign() > 0 {
				e.ibcSend(q)
				return true
			}
		}
	}
	return false
}

func anyPositive(m map[common.Address]*big.Int) bool {
	for _, v := range m {
		if v.Sign() > 0 {
			return true
		}
	}
	return false
}

// ibcReturn sends the voucher an ERC20-origin pair's coin became on end B back towards end A.
func (e *pegEnv) ibcReturn(p *pegPair) {
	n := e.n
	a := e.holder(p.vch)
	x := e.amount(e.get(p.vch, a.Eth))
	to := e.acc()
	pk := &pegPacket{p: p, from: a.Eth, to: to.Eth, x: x, ret: true}
	recvStr := to.Addr.String()
	if e.rng.Intn(8) == 0 {
		recvStr, pk.badRecv = "not-an-address", true
	}
	th, ts := clienttypes.NewHeight(1, 10_000_000), uint64(0)
	if e.rng.Intn(4) == 0 {
		th, ts, pk.timeout = clienttypes.ZeroHeight(), uint64(n.Time.Add(3*time.Second).UnixNano()), true
	}
	e.logOp("%s: IBC MsgTransfer of its voucher %s %s -> %s on %s (timeout=%v)", p.kind, x, e.names[a.Eth], recvStr, e.lb.B, pk.timeout)
	res := e.cosmos(a, transfertypes.NewMsgTransfer("transfer", e.lb.B, sdk.NewCoin(p.vdenom, sdkmath.NewIntFromBigInt(x)), a.Addr.String(), recvStr, th, ts, ""))
	pkt, sent := vn.PacketFromEvents(res.Events)
	e.settle(p, "ibc-send-voucher-of-erc20-origin-denom-home", res.Code == 0 && sent, func() error {
		if x.Sign() <= 0 {
			return opErr("amount not positive")
		}
		if e.get(p.vch, a.Eth).Cmp(x) < 0 {
			return opErr("voucher balance too small")
		}
		p.vch[a.Eth] = new(big.Int).Sub(p.vch[a.Eth], x)
		return nil
	})
	if res.Code == 0 && sent {
		pk.pkt = pkt
		e.flight = append(e.flight, pk)
	}
}

func c10Sequence(r *report.R, id string) {
	e := newPegEnv(r, id)
	if len(e.pairs) < 5 {
		r.Inconcl("only %d pairs could be registered", len(e.pairs))
		return
	}
	e.check("setup", nil)
	nsteps := r.Pick(60, 160)
	for i := 0; i < nsteps; i++ {
		e.step()
		if e.rng.Intn(4) == 0 {
			e.nextBlock()
		}
		alive := false
		for _, p := range e.pairs {
			alive = alive || !p.broken
		}
		if !alive {
			break
		}
	}
	kinds := []string{}
	for _, p := range e.pairs {
		kinds = append(kinds, p.kind)
	}
	sort.Strings(kinds)
	r.Count("operations", e.nops)
	r.Sample("sequence", map[string]any{"id": id, "pairs": kinds, "operations": e.nops, "last_ops": tailStr(e.ops, 12)})
}

func tailStr(s []string, n int) []string {
	if len(s) > n {
		return s[len(s)-n:]
	}
	return s
}

var _ = hex.EncodeToString
