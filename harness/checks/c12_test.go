//go:build verif

package checks

import (
	"fmt"
	"math/rand"
	"sort"
	"testing"

	sdkmath "cosmossdk.io/math"
	sdk "github.com/cosmos/cosmos-sdk/types"
	"github.com/cosmos/cosmos-sdk/types/query"

	ucdaotypes "github.com/haqq-network/haqq/x/ucdao/types"

	"verif/harness/report"
	"verif/harness/vn"
)

// ---- reference ledger -------------------------------------------------------

type daoRef struct {
	bal   map[string]map[string]sdkmath.Int // addr -> denom -> amount (non-zero only)
	total map[string]sdkmath.Int
}

func newDaoRef() *daoRef {
	return &daoRef{bal: map[string]map[string]sdkmath.Int{}, total: map[string]sdkmath.Int{}}
}

func (d *daoRef) get(a, denom string) sdkmath.Int {
	if m, ok := d.bal[a]; ok {
		if v, ok := m[denom]; ok {
			return v
		}
	}
	return sdkmath.ZeroInt()
}

func (d *daoRef) set(a, denom string, v sdkmath.Int) {
	if v.IsZero() {
		if m, ok := d.bal[a]; ok {
			delete(m, denom)
			if len(m) == 0 {
				delete(d.bal, a)
			}
		}
		return
	}
	if d.bal[a] == nil {
		d.bal[a] = map[string]sdkmath.Int{}
	}
	d.bal[a][denom] = v
}

func (d *daoRef) fund(a string, coins sdk.Coins) {
	for _, c := range coins {
		d.set(a, c.Denom, d.get(a, c.Denom).Add(c.Amount))
		t, ok := d.total[c.Denom]
		if !ok {
			t = sdkmath.ZeroInt()
		}
		d.total[c.Denom] = t.Add(c.Amount)
	}
}

// transfer moves exactly coins from a to b (a may equal b: then nothing changes).
func (d *daoRef) transfer(a, b string, coins sdk.Coins) {
	for _, c := range coins {
		d.set(a, c.Denom, d.get(a, c.Denom).Sub(c.Amount))
		d.set(b, c.Denom, d.get(b, c.Denom).Add(c.Amount))
	}
}

func (d *daoRef) coinsOf(a string) sdk.Coins {
	out := sdk.NewCoins()
	for denom, v := range d.bal[a] {
		out = out.Add(sdk.NewCoin(denom, v))
	}
	return out
}

func (d *daoRef) flat() map[string]string {
	out := map[string]string{}
	for a, m := range d.bal {
		for denom, v := range m {
			out[a+"/"+denom] = v.String()
		}
	}
	return out
}

// ---- observation ------------------------------------------------------------

type daoObs struct {
	balances map[string]string // addr/denom -> amount (from the raw balances store)
	totals   map[string]string
	holders  []string
	module   map[string]string
}

func observeDao(n *vn.Node) daoObs {
	ctx := n.Ctx()
	o := daoObs{balances: map[string]string{}, totals: map[string]string{}, module: map[string]string{}}
	for _, b := range n.App.DaoKeeper.GetAccountsBalances(ctx) {
		for _, c := range b.Coins {
			o.balances[b.Address+"/"+c.Denom] = c.Amount.String()
		}
	}
	for _, c := range n.App.DaoKeeper.GetTotalBalance(ctx) {
		o.totals[c.Denom] = c.Amount.String()
	}
	res, err := n.App.DaoKeeper.Holders(sdk.WrapSDKContext(ctx), &ucdaotypes.QueryHoldersRequest{Pagination: &query.PageRequest{Limit: 10000}})
	vn.Must(err)
	for _, b := range res.Balances {
		o.holders = append(o.holders, b.Address)
	}
	sort.Strings(o.holders)
	for _, c := range n.App.BankKeeper.GetAllBalances(ctx, vn.ModuleAddr(ucdaotypes.ModuleName)) {
		o.module[c.Denom] = c.Amount.String()
	}
	return o
}

func mapsEqual(a, b map[string]string) (bool, string) {
	for k, v := range a {
		if b[k] != v {
			return false, fmt.Sprintf("%s: %s vs %s", k, v, b[k])
		}
	}
	for k, v := range b {
		if a[k] != v {
			return false, fmt.Sprintf("%s: %s vs %s", k, a[k], v)
		}
	}
	return true, ""
}

// ---- workload ---------------------------------------------------------------

var daoDenoms = []string{vn.Denom, "aLIQUID0", "aLIQUID7"}

func daoAmountClass(r *rand.Rand, bal sdkmath.Int) (sdkmath.Int, string) {
	switch r.Intn(6) {
	case 0:
		return sdkmath.OneInt(), "one"
	case 1:
		return bal, "exact"
	case 2:
		return bal.AddRaw(1), "over"
	case 3:
		if bal.IsPositive() {
			return bal.SubRaw(1), "allbut1"
		}
		return sdkmath.OneInt(), "one"
	default:
		if bal.IsPositive() {
			return sdkmath.NewIntFromBigInt(new(bigInt).Rand(r, bal.BigInt())).AddRaw(1), "part"
		}
		return sdkmath.NewInt(int64(r.Intn(1000) + 1)), "part"
	}
}

func TestC12(t *testing.T) {
	r := report.Start("C12")
	defer r.Finish()
	nseq := r.Cases(320, 16000)
	for i := 0; i < nseq; i++ {
		id := fmt.Sprintf("seq/%d", i)
		if !r.Want(id, i) {
			continue
		}
		runC12Seq(r, id)
	}
}

func runC12Seq(r *report.R, id string) {
	rng := r.Rand(id)
	extra := map[string]sdk.Coins{}
	cfg := vn.Config{Seed: uint64(r.Seed), NumVals: 1, NumAccounts: 5}
	_, accs := vn.Keys(cfg)
	for _, a := range accs {
		extra[a.Addr.String()] = sdk.NewCoins(
			sdk.NewCoin("aLIQUID0", sdkmath.NewInt(1_000_000)),
			sdk.NewCoin("aLIQUID7", sdkmath.NewIntWithDecimal(5, 20)),
			sdk.NewCoin("uother", sdkmath.NewInt(1000)),
		)
	}
	cfg.ExtraBalances = extra
	n := vn.New(cfg)
	// one recipient without an account on chain
	fresh := vn.DetAccount(uint64(r.Seed), "fresh", rng.Intn(1000))
	who := func(i int) (string, sdk.AccAddress) {
		if i == len(accs) {
			return fresh.Addr.String(), fresh.Addr
		}
		return accs[i].Addr.String(), accs[i].Addr
	}
	ref := newDaoRef()
	broken := false
	viol := func(sig, what string, d any) {
		broken = true
		r.Violation(id, sig, what, d)
	}
	steps := 8 + rng.Intn(r.Pick(24, 40))
	var trace []string
	n.BeginBlock(vn.BlockOpts{})
	for s := 0; s < steps; s++ {
		if s > 0 && rng.Intn(4) == 0 {
			n.EndBlock()
			n.Commit()
			n.BeginBlock(vn.BlockOpts{})
		}
		si := rng.Intn(len(accs))
		sender := accs[si]
		sAddr := sender.Addr.String()
		var msg sdk.Msg
		var kind, amtClass, rel string
		var expect func() // applied to ref when the tx succeeds
		mustFail := false
		k := rng.Intn(10)
		if s < 3 {
			k = 0
		}
		switch {
		case k < 3: // fund
			kind = "fund"
			coins := sdk.NewCoins()
			nd := 1 + rng.Intn(3)
			for j := 0; j < nd; j++ {
				d := daoDenoms[rng.Intn(len(daoDenoms))]
				coins = coins.Add(sdk.NewCoin(d, sdkmath.NewInt(int64(rng.Intn(5000)+1))))
			}
			amtClass = fmt.Sprintf("%ddenoms", len(coins))
			if rng.Intn(12) == 0 {
				coins = coins.Add(sdk.NewCoin("uother", sdkmath.NewInt(5)))
				amtClass = "baddenom"
				mustFail = true
			}
			rel = "self"
			msg = ucdaotypes.NewMsgFund(coins, sender.Addr)
			expect = func() { ref.fund(sAddr, coins) }
		default:
			ri := rng.Intn(len(accs) + 1)
			if rng.Intn(5) == 0 {
				ri = si
			}
			rAddr, rAcc := who(ri)
			rel = "other"
			if ri == si {
				rel = "same"
			} else if ri == len(accs) {
				rel = "noaccount"
			}
			have := ref.coinsOf(sAddr)
			switch {
			case k < 5:
				kind = "transfer_all"
				amtClass = "all"
				if have.IsZero() {
					mustFail = true
					amtClass = "nothing"
				}
				msg = ucdaotypes.NewMsgTransferOwnership(sender.Addr, rAcc)
				mv := have
				expect = func() { ref.transfer(sAddr, rAddr, mv) }
			case k < 7:
				kind = "transfer_ratio"
				var ratio sdk.Dec
				switch rng.Intn(5) {
				case 0:
					ratio, amtClass = sdk.OneDec(), "ratio1"
				case 1:
					ratio, amtClass = sdk.NewDecWithPrec(1, 18), "ratio1e-18"
				case 2:
					ratio, amtClass = sdk.NewDecWithPrec(int64(rng.Intn(999)+1), 6), "ratiotiny"
				default:
					ratio, amtClass = sdk.NewDecWithPrec(int64(rng.Intn(999_999)+1), 6), "ratio"
				}
				msg = ucdaotypes.NewMsgTransferOwnershipWithRatio(sender.Addr, rAcc, ratio)
				mv := sdk.NewCoins()
				for _, c := range have {
					a := sdk.NewDecFromInt(c.Amount).Mul(ratio).TruncateInt()
					if a.IsPositive() {
						mv = mv.Add(sdk.NewCoin(c.Denom, a))
					}
				}
				if have.IsZero() {
					mustFail = true
				}
				// the stated amount is floor(balance*ratio) per denomination
				expect = func() { ref.transfer(sAddr, rAddr, mv) }
			default:
				kind = "transfer_amount"
				coins := sdk.NewCoins()
				nd := 1 + rng.Intn(2)
				over := false
				for j := 0; j < nd; j++ {
					d := daoDenoms[rng.Intn(len(daoDenoms))]
					if !coins.AmountOf(d).IsZero() {
						continue
					}
					a, cl := daoAmountClass(rng, ref.get(sAddr, d))
					amtClass += cl
					if a.GT(ref.get(sAddr, d)) {
						over = true
					}
					coins = coins.Add(sdk.NewCoin(d, a))
				}
				if over || have.IsZero() {
					mustFail = true
				}
				// hostile list shapes: a hand-crafted transaction need not carry a canonical coin list
				if rng.Intn(6) == 0 && len(coins) > 0 {
					switch rng.Intn(4) {
					case 0: // the same denomination twice
						coins = append(sdk.Coins{coins[0]}, coins...)
						amtClass += "+duplicate-denom"
					case 1: // a zero entry
						coins = append(sdk.Coins{sdk.Coin{Denom: daoDenoms[0], Amount: sdkmath.ZeroInt()}}, coins...)
						amtClass += "+zero-entry"
					case 2: // unsorted
						if len(coins) > 1 {
							coins = sdk.Coins{coins[1], coins[0]}
							amtClass += "+unsorted"
						}
					default: // empty list
						coins = sdk.Coins{}
						amtClass += "+empty"
					}
					switch {
					case !coins.IsValid():
						mustFail = true
					case len(coins) == 0:
						mustFail = false // an empty list is a valid list: a transfer of nothing, judged by the ledger like any other
					}
				}
				msg = ucdaotypes.NewMsgTransferOwnershipWithAmount(sender.Addr, rAcc, coins)
				mv := coins
				expect = func() { ref.transfer(sAddr, rAddr, mv) }
			}
		}
		before := observeDao(n)
		bankBefore := map[string]sdk.Coins{}
		for _, a := range accs {
			bankBefore[a.Addr.String()] = n.App.BankKeeper.GetAllBalances(n.Ctx(), a.Addr)
		}
		fee := sdk.NewCoins(sdk.NewCoin(vn.Denom, sdkmath.NewInt(1_000_000)))
		res := n.Deliver(n.CosmosTx(vn.CosmosArgs{Msgs: []sdk.Msg{msg}, Gas: 500_000, Fee: fee}, sender))
		after := observeDao(n)
		r.Eval(1)
		ok := res.Code == 0
		trace = append(trace, fmt.Sprintf("%s %s->%s %s ok=%v", kind, sAddr[len(sAddr)-4:], rel, amtClass, ok))
		sig := func(eq string) string { return fmt.Sprintf("%s|%s|%s", kind, rel, eq) }
		detail := func(extra string) map[string]any {
			return map[string]any{"trace": trace, "msg": msg.String(), "log": res.Log, "extra": extra,
				"before": before, "after": after, "ref": ref.flat()}
		}
		if ok {
			if mustFail {
				viol(sig("accepted-though-must-fail"), "message that cannot be honoured was accepted", detail(""))
			}
			expect()
			r.Count("msgs_ok/"+kind, 1)
			r.Nontriv(kind + "|" + rel + "|" + amtClass)
		} else {
			r.Count("msgs_failed/"+kind, 1)
			if eq, d := mapsEqual(before.balances, after.balances); !eq {
				viol(sig("failed-msg-changed-balances"), "failed message changed DAO balances: "+d, detail(d))
			}
			if eq, d := mapsEqual(before.totals, after.totals); !eq {
				viol(sig("failed-msg-changed-total"), "failed message changed DAO total: "+d, detail(d))
			}
			if mustFail {
				r.Nontriv(kind + "|" + rel + "|" + amtClass + "|rejected")
			}
		}
		// ledger equations after every message
		if eq, d := mapsEqual(ref.flat(), after.balances); !eq {
			viol(sig("holder-balance≠reference"), "holder balances differ from reference ledger (ref vs observed) "+d, detail(d))
			// resynchronise so that one defect is reported once per sequence step
			resyncDao(ref, after)
		}
		sum := map[string]sdkmath.Int{}
		for k, v := range after.balances {
			denom := k[len(k)-len(denomOf(k)):]
			a, _ := sdkmath.NewIntFromString(v)
			if _, ok := sum[denom]; !ok {
				sum[denom] = sdkmath.ZeroInt()
			}
			sum[denom] = sum[denom].Add(a)
		}
		sumS := map[string]string{}
		for k, v := range sum {
			sumS[k] = v.String()
		}
		if eq, d := mapsEqual(sumS, after.totals); !eq {
			viol(sig("Σholders≠total"), "sum of holder balances (left) ≠ recorded total (right): "+d, detail(d))
		}
		if eq, d := mapsEqual(after.totals, after.module); !eq {
			viol(sig("total≠module-account"), "recorded total (left) ≠ module account coins (right): "+d, detail(d))
		}
		// holders index = accounts with a non-zero balance
		want := map[string]bool{}
		for k := range after.balances {
			want[k[:len(k)-len(denomOf(k))-1]] = true
		}
		var wl []string
		for a := range want {
			wl = append(wl, a)
		}
		sort.Strings(wl)
		if fmt.Sprint(wl) != fmt.Sprint(after.holders) {
			viol(sig("holders-index"), fmt.Sprintf("holders index %v ≠ accounts with balance %v", after.holders, wl), detail(""))
		}
		// bank side: only the signer's bank balance may change (by fee and, for fund, the deposit)
		for _, a := range accs {
			if a.Addr.Equals(sender.Addr) {
				if ok && kind == "fund" {
					m := msg.(*ucdaotypes.MsgFund)
					exp := bankBefore[sAddr].Sub(fee...).Sub(m.Amount...)
					got := n.App.BankKeeper.GetAllBalances(n.Ctx(), a.Addr)
					if !exp.IsEqual(got) {
						viol(sig("depositor-debit"), fmt.Sprintf("depositor bank balance %s, expected %s", got, exp), detail(""))
					}
				}
				continue
			}
			if got := n.App.BankKeeper.GetAllBalances(n.Ctx(), a.Addr); !got.IsEqual(bankBefore[a.Addr.String()]) {
				viol(sig("third-party-bank-balance"), "bank balance of a non-signer changed", detail(a.Addr.String()))
			}
		}
		r.Count("ledger_checks", 1)
		if broken {
			// the ledger is corrupt from here on; one witness per sequence is enough
			break
		}
	}
	n.EndBlock()
	n.Commit()
	r.Sample("sequence", map[string]any{"id": id, "trace": trace})
}

func denomOf(k string) string {
	for i := len(k) - 1; i >= 0; i-- {
		if k[i] == '/' {
			return k[i+1:]
		}
	}
	return k
}

func resyncDao(ref *daoRef, o daoObs) {
	ref.bal = map[string]map[string]sdkmath.Int{}
	for k, v := range o.balances {
		d := denomOf(k)
		a, _ := sdkmath.NewIntFromString(v)
		ref.set(k[:len(k)-len(d)-1], d, a)
	}
}
