//go:build verif

package checks

import (
	"crypto/sha256"
	"encoding/hex"
	"encoding/json"
	"fmt"
	"math/rand"
	"os"
	"sort"
	"strconv"
	"sync"
	"sync/atomic"
	"testing"
	"time"

	dbm "github.com/cometbft/cometbft-db"
	abci "github.com/cometbft/cometbft/abci/types"
	"github.com/cosmos/cosmos-sdk/baseapp"
	"github.com/cosmos/cosmos-sdk/store"
	pruningtypes "github.com/cosmos/cosmos-sdk/store/pruning/types"
	storetypes "github.com/cosmos/cosmos-sdk/store/types"
	simtestutil "github.com/cosmos/cosmos-sdk/testutil/sims"

	"github.com/haqq-network/haqq/app"

	"verif/harness/vn"
)

// blockTrace is what a replica reports for one block. Only the consensus fields decide;
// events and logs are recorded as a digest.
type blockTrace struct {
	Height       int64             `json:"h"`
	AppHash      string            `json:"app_hash"`
	Txs          []txTrace         `json:"txs"`
	ValUpdates   string            `json:"val_updates"`
	ConsParams   string            `json:"cons_params"`
	StoreHashes  map[string]string `json:"stores"`
	EventsDigest string            `json:"events_digest"`
}

type txTrace struct {
	Code      uint32 `json:"code"`
	Data      string `json:"data"`
	GasWanted int64  `json:"gw"`
	GasUsed   int64  `json:"gu"`
	Codespace string `json:"cs"`
	LogDigest string `json:"log"`
}

func h8(b []byte) string {
	s := sha256.Sum256(b)
	return hex.EncodeToString(s[:8])
}

func storeHashes(n *vn.Node) map[string]string {
	out := map[string]string{}
	cms := n.App.CommitMultiStore()
	for _, name := range n.StoreNames() {
		k := n.App.GetKey(name)
		if st, ok := cms.GetCommitKVStore(k).(storetypes.Committer); ok {
			out[name] = hex.EncodeToString(st.LastCommitID().Hash)
		}
	}
	return out
}

// replicaKnobs are the process-local conditions of a follower.
type replicaKnobs struct {
	DB         string `json:"db"`          // memdb | goleveldb
	IAVLCache  int    `json:"iavl_cache"`  // 0 = default
	InterBlock bool   `json:"inter_block"` // inter-block cache
	Pruning    string `json:"pruning"`
	MinGas     string `json:"min_gas"`
	MaxTxGas   uint64 `json:"max_tx_gas_wanted"`
	InvCheck   uint   `json:"inv_check"`
	Preconstr  bool   `json:"preconstruct"` // build an unused app first in the same process
	Schedule   int64  `json:"schedule"`     // seed for interleaved CheckTx/queries (0 = none)
	QueryStorm int    `json:"query_storm"`  // concurrent query goroutines while blocks execute
	NoSimulate bool   `json:"no_simulate,omitempty"` // diagnosis only: the same schedule with the Simulate calls left out
	RestartAt  []int  `json:"restart_at"`   // heights after whose commit the app is reopened from its DB
	GOMAXPROCS int    `json:"gomaxprocs"`
	GOGC       int    `json:"gogc"`
	TZ         string `json:"tz"`
}

func (k replicaKnobs) String() string {
	b, _ := json.Marshal(k)
	return string(b)
}

// runReplica replays a history under the given knobs and returns the per-block traces.
func runReplica(f histFile, k replicaKnobs, dir string, onBoundary func(n *vn.Node, height int64, restarted bool)) ([]blockTrace, map[string]int, error) {
	stats := map[string]int{}
	cfg := f.Cfg.vnConfig()
	if k.Preconstr {
		_ = vn.New(vn.Config{Seed: 99, NumVals: 1, NumAccounts: 1})
		stats["preconstructed_apps"]++
	}
	if k.DB == "goleveldb" {
		db, err := dbm.NewGoLevelDB("replica", dir)
		if err != nil {
			return nil, stats, err
		}
		cfg.DB = db
	}
	var bopts []func(*baseapp.BaseApp)
	if k.IAVLCache > 0 {
		bopts = append(bopts, baseapp.SetIAVLCacheSize(k.IAVLCache))
	}
	if k.InterBlock {
		bopts = append(bopts, baseapp.SetInterBlockCache(store.NewCommitKVStoreCacheManager()))
	}
	if k.Pruning != "" {
		bopts = append(bopts, baseapp.SetPruning(pruningtypes.NewPruningOptionsFromString(k.Pruning)))
	}
	if k.MinGas != "" {
		bopts = append(bopts, baseapp.SetMinGasPrices(k.MinGas))
	}
	cfg.BaseAppOpts = bopts
	if k.MaxTxGas > 0 {
		m := simtestutil.AppOptionsMap{"home": app.DefaultNodeHome, "evm.max-tx-gas-wanted": k.MaxTxGas}
		cfg.AppOpts = m
	}
	if k.InvCheck > 0 {
		cfg.InvCheck = k.InvCheck
	}
	n := vn.New(cfg)
	var rng *rand.Rand
	if k.Schedule != 0 {
		rng = rand.New(rand.NewSource(k.Schedule))
	}
	restart := map[int]bool{}
	for _, h := range k.RestartAt {
		restart[h] = true
	}
	// all txs of the history, for CheckTx noise
	var allTxs [][]byte
	for _, b := range f.Blocks {
		allTxs = append(allTxs, b.Txs...)
	}
	noise := func(where string) {
		if rng == nil || rng.Intn(3) > 0 {
			return
		}
		for i := 0; i < 1+rng.Intn(3); i++ {
			switch rng.Intn(4) {
			case 0:
				if len(allTxs) > 0 {
					n.App.CheckTx(abci.RequestCheckTx{Tx: allTxs[rng.Intn(len(allTxs))], Type: abci.CheckTxType_New})
					stats["noise/checktx"]++
				}
			case 1:
				if len(allTxs) > 0 {
					n.App.CheckTx(abci.RequestCheckTx{Tx: allTxs[rng.Intn(len(allTxs))], Type: abci.CheckTxType_Recheck})
					stats["noise/rechecktx"]++
				}
			case 2:
				if len(allTxs) > 0 {
					tx := allTxs[rng.Intn(len(allTxs))]
					if !k.NoSimulate {
						_, _, _ = n.App.BaseApp.Simulate(tx)
						stats["noise/simulate"]++
					}
				}
			default:
				for _, p := range []string{"/cosmos.bank.v1beta1.Query/TotalSupply", "/ethermint.evm.v1.Query/Params", "/cosmos.staking.v1beta1.Query/Validators", "/haqq.coinomics.v1.Query/Params", "/ethermint.feemarket.v1.Query/BaseFee"} {
					func() {
						defer func() { _ = recover() }()
						n.App.Query(abci.RequestQuery{Path: p})
					}()
					stats["noise/query"]++
				}
			}
		}
		_ = where
	}
	// concurrent query storm
	var stop int32
	var wg sync.WaitGroup
	var stormCount int64
	for q := 0; q < k.QueryStorm; q++ {
		wg.Add(1)
		go func(q int) {
			defer wg.Done()
			paths := []string{"/cosmos.bank.v1beta1.Query/TotalSupply", "/cosmos.staking.v1beta1.Query/Validators", "/ethermint.evm.v1.Query/Params", "/ethermint.feemarket.v1.Query/Params", "/cosmos.gov.v1.Query/Proposals", "/haqq.ucdao.v1.Query/TotalBalance"}
			for i := 0; atomic.LoadInt32(&stop) == 0; i++ {
				func() {
					defer func() { _ = recover() }()
					n.App.Query(abci.RequestQuery{Path: paths[(i+q)%len(paths)]})
				}()
				atomic.AddInt64(&stormCount, 1)
				time.Sleep(200 * time.Microsecond)
			}
		}(q)
	}
	defer func() {
		atomic.StoreInt32(&stop, 1)
		wg.Wait()
		stats["storm_queries"] = int(atomic.LoadInt64(&stormCount))
	}()
	var traces []blockTrace
	for _, b := range f.Blocks {
		noise("pre-begin")
		n.BeginBlock(vn.BlockOpts{Dt: time.Duration(b.DtNs), Proposer: b.Proposer, HasProp: true, Votes: b.Votes, Evidence: b.Evidence})
		bt := blockTrace{Height: n.Height}
		ev := sha256.New()
		for _, tx := range b.Txs {
			noise("pre-tx")
			res := n.Deliver(tx)
			bt.Txs = append(bt.Txs, txTrace{Code: res.Code, Data: h8(res.Data), GasWanted: res.GasWanted, GasUsed: res.GasUsed, Codespace: res.Codespace, LogDigest: h8([]byte(res.Log))})
			for _, e := range res.Events {
				ev.Write([]byte(e.String()))
			}
		}
		noise("pre-end")
		eb := n.EndBlock()
		vu, _ := json.Marshal(eb.ValidatorUpdates)
		bt.ValUpdates = h8(vu)
		if eb.ConsensusParamUpdates != nil {
			cp, _ := json.Marshal(eb.ConsensusParamUpdates)
			bt.ConsParams = h8(cp)
		}
		for _, e := range eb.Events {
			ev.Write([]byte(e.String()))
		}
		bt.EventsDigest = hex.EncodeToString(ev.Sum(nil)[:8])
		noise("pre-commit")
		bt.AppHash = hex.EncodeToString(n.Commit())
		bt.StoreHashes = storeHashes(n)
		traces = append(traces, bt)
		restarted := false
		if restart[int(n.Height)] {
			n.Reopen()
			restarted = true
			stats["restarts"]++
		}
		if onBoundary != nil {
			onBoundary(n, n.Height, restarted)
		}
	}
	return traces, stats, nil
}

// firstTxDiff returns the first pair of differing transaction results of two traces.
func firstTxDiff(a, b []blockTrace) (p, q txTrace, ok bool) {
	for i := range a {
		if i >= len(b) || len(a[i].Txs) != len(b[i].Txs) {
			return p, q, false
		}
		for j := range a[i].Txs {
			x, y := a[i].Txs[j], b[i].Txs[j]
			if x.Code != y.Code || x.Data != y.Data || x.GasWanted != y.GasWanted || x.GasUsed != y.GasUsed || x.Codespace != y.Codespace {
				return x, y, true
			}
		}
		if a[i].AppHash != b[i].AppHash {
			return p, q, false
		}
	}
	return p, q, false
}

// compareTraces returns the first divergence between two traces ("" if none) and the
// number of blocks whose event digests differ (recorded, not deciding).
func compareTraces(a, b []blockTrace) (string, string, int) {
	evDiff := 0
	for i := range a {
		if i >= len(b) {
			return fmt.Sprintf("length (%d vs %d blocks)", len(a), len(b)), "length", evDiff
		}
		x, y := a[i], b[i]
		if x.EventsDigest != y.EventsDigest {
			evDiff++
		}
		if len(x.Txs) != len(y.Txs) {
			return fmt.Sprintf("height %d: tx count", x.Height), "tx-count", evDiff
		}
		for j := range x.Txs {
			p, q := x.Txs[j], y.Txs[j]
			if p.Code != q.Code || p.Data != q.Data || p.GasWanted != q.GasWanted || p.GasUsed != q.GasUsed || p.Codespace != q.Codespace {
				f := "code"
				switch {
				case p.Code != q.Code:
				case p.Data != q.Data:
					f = "data"
				case p.GasUsed != q.GasUsed:
					f = "gas-used"
				case p.GasWanted != q.GasWanted:
					f = "gas-wanted"
				default:
					f = "codespace"
				}
				return fmt.Sprintf("height %d tx %d: %s (%+v vs %+v)", x.Height, j, f, p, q), "tx-result." + f, evDiff
			}
		}
		if x.ValUpdates != y.ValUpdates {
			return fmt.Sprintf("height %d: validator updates", x.Height), "validator-updates", evDiff
		}
		if x.ConsParams != y.ConsParams {
			return fmt.Sprintf("height %d: consensus param updates", x.Height), "consensus-params", evDiff
		}
		if x.AppHash != y.AppHash {
			var stores []string
			for s, hsh := range x.StoreHashes {
				if y.StoreHashes[s] != hsh {
					stores = append(stores, s)
				}
			}
			sort.Strings(stores)
			return fmt.Sprintf("height %d: app hash %s vs %s; diverging stores %v", x.Height, x.AppHash, y.AppHash, stores), "app-hash:" + fmt.Sprint(stores), evDiff
		}
	}
	return "", "", evDiff
}

// TestFollower is the entry point of a follower process (spawned by TestC01 / TestC20).
func TestFollower(t *testing.T) {
	path := os.Getenv("VERIF_FOLLOWER")
	if path == "" {
		t.Skip("not a follower process")
	}
	f, err := loadHistory(path)
	if err != nil {
		t.Fatal(err)
	}
	var k replicaKnobs
	if err := json.Unmarshal([]byte(os.Getenv("VERIF_FOLLOWER_KNOBS")), &k); err != nil {
		t.Fatal(err)
	}
	from, _ := strconv.Atoi(os.Getenv("VERIF_FOLLOWER_FROM"))
	_ = from
	dir := os.Getenv("VERIF_FOLLOWER_DIR")
	traces, stats, err := runReplica(f, k, dir, nil)
	if err != nil {
		t.Fatal(err)
	}
	out, _ := json.Marshal(map[string]any{"traces": traces, "stats": stats})
	if err := os.WriteFile(os.Getenv("VERIF_FOLLOWER_OUT"), out, 0o644); err != nil {
		t.Fatal(err)
	}
}
