//go:build verif

package checks

import (
	"fmt"
	"os"
	"testing"
	"time"

	"verif/harness/report"
	"verif/harness/vn"
)

func TestDbgC20(t *testing.T) {
	os.Setenv("VERIF_TIER", "quick")
	os.Setenv("VERIF_SEED", "1")
	os.Setenv("VERIF_OUT", "/tmp/dbgc20")
	os.MkdirAll("/tmp/dbgc20", 0o755)
	r := report.Start("C20")
	id := "hist/5"
	h, _ := histCfgFor(r, id)
	g := newHistGen(h, r.Rand(id))
	for b := 0; b < 30; b++ {
		g.block()
	}
	for _, restart := range []bool{false, true} {
		n := vn.New(h.vnConfig())
		for i, b := range g.n.Log {
			if i >= 28 {
				break
			}
			if restart && i == 26 {
				n.Reopen()
			}
			o := b.Opts
			n.BeginBlock(o)
			for j, tx := range b.Txs {
				res := n.Deliver(tx)
				if i == 26 && j == 0 {
					fmt.Println("height", n.Height)
					decoded, _ := n.Enc.TxConfig.TxDecoder()(tx)
					for _, m := range decoded.GetMsgs() {
						fmt.Printf("msg %T\n", m)
					}
					fmt.Println(restart, res.Code, res.GasUsed, res.Log)
				}
			}
			n.EndBlock()
			n.Commit()
		}
	}
	_ = time.Second
}
