//go:build verif

package checks

import (
	"fmt"
	"math/rand"
	"sort"

	sdkmath "cosmossdk.io/math"
	sdk "github.com/cosmos/cosmos-sdk/types"
	sdkvesting "github.com/cosmos/cosmos-sdk/x/auth/vesting/types"
)

// ---- independent reference for step-function schedules ----------------------
//
// A schedule is (start, periods). Its release events are at absolute times
// start+Σlength; the reference value at t is the sum of events with time <= t when
// t > start and zero when t <= start ("zero up to the start").

type refEvent struct {
	T   int64
	Amt map[string]sdkmath.Int
}

func coinsMap(c sdk.Coins) map[string]sdkmath.Int {
	m := map[string]sdkmath.Int{}
	for _, x := range c {
		if !x.Amount.IsZero() {
			m[x.Denom] = x.Amount
		}
	}
	return m
}

func addMap(a, b map[string]sdkmath.Int) map[string]sdkmath.Int {
	out := map[string]sdkmath.Int{}
	for k, v := range a {
		out[k] = v
	}
	for k, v := range b {
		if o, ok := out[k]; ok {
			out[k] = o.Add(v)
		} else {
			out[k] = v
		}
	}
	for k, v := range out {
		if v.IsZero() {
			delete(out, k)
		}
	}
	return out
}

func minMap(a, b map[string]sdkmath.Int) map[string]sdkmath.Int {
	out := map[string]sdkmath.Int{}
	for k, v := range a {
		if w, ok := b[k]; ok {
			if w.LT(v) {
				v = w
			}
			if !v.IsZero() {
				out[k] = v
			}
		}
	}
	return out
}

func mapEq(a, b map[string]sdkmath.Int) bool {
	if len(a) != len(b) {
		return false
	}
	for k, v := range a {
		w, ok := b[k]
		if !ok || !w.Equal(v) {
			return false
		}
	}
	return true
}

func mapLTE(a, b map[string]sdkmath.Int) bool {
	for k, v := range a {
		w, ok := b[k]
		if !ok {
			if v.IsPositive() {
				return false
			}
			continue
		}
		if v.GT(w) {
			return false
		}
	}
	return true
}

func mapStr(a map[string]sdkmath.Int) string {
	var ks []string
	for k := range a {
		ks = append(ks, k)
	}
	sort.Strings(ks)
	s := ""
	for _, k := range ks {
		s += a[k].String() + k + ","
	}
	if s == "" {
		return "0"
	}
	return s
}

func refEvents(start int64, ps sdkvesting.Periods) []refEvent {
	var out []refEvent
	t := start
	for _, p := range ps {
		t += p.Length
		out = append(out, refEvent{T: t, Amt: coinsMap(p.Amount)})
	}
	return out
}

// refRead is the reference value of a schedule at time t.
func refRead(start int64, ps sdkvesting.Periods, t int64) map[string]sdkmath.Int {
	out := map[string]sdkmath.Int{}
	if t <= start {
		return out
	}
	for _, e := range refEvents(start, ps) {
		if e.T <= t {
			out = addMap(out, e.Amt)
		}
	}
	return out
}

func refCount(start int64, ps sdkvesting.Periods, t int64) int {
	if t <= start {
		return 0
	}
	n := 0
	for _, e := range refEvents(start, ps) {
		if e.T <= t {
			n++
		}
	}
	return n
}

func refTotal(ps sdkvesting.Periods) map[string]sdkmath.Int {
	out := map[string]sdkmath.Int{}
	for _, p := range ps {
		out = addMap(out, coinsMap(p.Amount))
	}
	return out
}

func refEnd(start int64, ps sdkvesting.Periods) int64 {
	t := start
	for _, p := range ps {
		t += p.Length
	}
	return t
}

// mergedEvents is the union of the release events of two schedules with simultaneous
// events combined (time -> amount).
func mergedEvents(sa int64, a sdkvesting.Periods, sb int64, b sdkvesting.Periods) map[int64]map[string]sdkmath.Int {
	out := map[int64]map[string]sdkmath.Int{}
	for _, e := range append(refEvents(sa, a), refEvents(sb, b)...) {
		out[e.T] = addMap(out[e.T], e.Amt)
	}
	return out
}

func eventsByTime(start int64, ps sdkvesting.Periods) map[int64]map[string]sdkmath.Int {
	out := map[int64]map[string]sdkmath.Int{}
	for _, e := range refEvents(start, ps) {
		out[e.T] = addMap(out[e.T], e.Amt)
	}
	return out
}

// ---- generators ---------------------------------------------------------------

type schedShape struct {
	n          int
	zeroLen    bool
	multiDenom bool
}

func (s schedShape) String() string {
	return fmt.Sprintf("n%d/z%v/m%v", bucket(s.n), s.zeroLen, s.multiDenom)
}

func bucket(n int) int {
	switch {
	case n <= 1:
		return n
	case n <= 3:
		return 3
	case n <= 6:
		return 6
	default:
		return 12
	}
}

var schedDenoms = []string{"aISLM", "aLIQUID3", "uatom"}

// genPeriods generates a period list; amounts may be huge, lengths may be zero.
func genPeriods(r *rand.Rand, maxN int, denoms []string) (sdkvesting.Periods, schedShape) {
	n := 1 + r.Intn(maxN)
	sh := schedShape{n: n}
	var ps sdkvesting.Periods
	for i := 0; i < n; i++ {
		var l int64
		switch r.Intn(6) {
		case 0:
			l = 0
			sh.zeroLen = true
		case 1:
			l = 1
		case 2:
			l = int64(r.Intn(10) + 1)
		default:
			l = int64(r.Intn(100000) + 1)
		}
		coins := sdk.NewCoins()
		nd := 1
		if len(denoms) > 1 && r.Intn(3) == 0 {
			nd = 1 + r.Intn(len(denoms))
		}
		for j := 0; j < nd; j++ {
			d := denoms[r.Intn(len(denoms))]
			var a sdkmath.Int
			switch r.Intn(4) {
			case 0:
				a = sdkmath.NewInt(int64(r.Intn(5) + 1))
			case 1:
				a = sdkmath.NewIntWithDecimal(int64(r.Intn(1000)+1), 18)
			default:
				a = sdkmath.NewInt(r.Int63n(1_000_000_000) + 1)
			}
			coins = coins.Add(sdk.NewCoin(d, a))
		}
		if len(coins) > 1 {
			sh.multiDenom = true
		}
		ps = append(ps, sdkvesting.Period{Length: l, Amount: coins})
	}
	return ps, sh
}

// probeTimes returns the instants at which two step functions must be compared to
// decide equality everywhere: every event time and its neighbours, the starts, and a
// few random instants.
func probeTimes(r *rand.Rand, lo, hi int64, evs ...[]refEvent) []int64 {
	set := map[int64]bool{lo - 1: true, lo: true, lo + 1: true, hi - 1: true, hi: true, hi + 1: true, hi + 1000: true}
	for _, es := range evs {
		for _, e := range es {
			set[e.T-1], set[e.T], set[e.T+1] = true, true, true
		}
	}
	for i := 0; i < 6; i++ {
		if hi > lo {
			set[lo+r.Int63n(hi-lo+1)] = true
		}
	}
	var out []int64
	for t := range set {
		out = append(out, t)
	}
	sort.Slice(out, func(i, j int) bool { return out[i] < out[j] })
	return out
}

func periodsStr(ps sdkvesting.Periods) string {
	s := ""
	for _, p := range ps {
		s += fmt.Sprintf("[%d:%s]", p.Length, p.Amount)
	}
	return s
}

func clonePeriods(ps sdkvesting.Periods) sdkvesting.Periods {
	out := make(sdkvesting.Periods, len(ps))
	for i, p := range ps {
		out[i] = sdkvesting.Period{Length: p.Length, Amount: sdk.NewCoins(p.Amount...)}
	}
	return out
}
