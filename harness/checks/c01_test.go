//go:build verif

package checks

import (
	"encoding/json"
	"fmt"
	"os"
	"os/exec"
	"path/filepath"
	"strings"
	"testing"

	"verif/harness/report"
)

func TestC01(t *testing.T) {
	r := report.Start("C01")
	defer r.Finish()
	nh := r.Cases(2, 16)
	for i := 0; i < nh; i++ {
		id := fmt.Sprintf("hist/%d", i)
		if !r.Want(id, i) {
			continue
		}
		c01History(r, id)
	}
	// directed: governance campaigns on the EVM parameters in quick succession (half of them rolled
	// back), so that followers which restart along the way meet state that changed under them
	ng := r.Cases(3, 8)
	for i := 0; i < ng; i++ {
		id := fmt.Sprintf("gov/%d", i)
		if !r.Want(id, nh+i) {
			continue
		}
		c01History(r, id)
	}
	// directed: vesting accounts, liquid denoms with token pairs, conversions and bank sends of paired denoms
	for i := 0; i < r.Cases(2, 6); i++ {
		id := fmt.Sprintf("paired/%d", i)
		if !r.Want(id, nh+ng+i) {
			continue
		}
		c01History(r, id)
	}
}

func followerKnobs(r *report.R, id string, nfollow int) []replicaKnobs {
	rng := r.Rand(id + "/knobs")
	var ks []replicaKnobs
	for f := 0; f < nfollow; f++ {
		k := replicaKnobs{DB: []string{"memdb", "goleveldb"}[rng.Intn(2)], GOMAXPROCS: []int{1, 4, 16}[rng.Intn(3)], GOGC: []int{100, 20, 400}[rng.Intn(3)],
			TZ: []string{"UTC", "Pacific/Kiritimati", "America/Anchorage", "Asia/Kolkata"}[rng.Intn(4)]}
		if rng.Intn(2) == 0 {
			k.IAVLCache = []int{1, 100, 500000}[rng.Intn(3)]
		}
		k.InterBlock = rng.Intn(2) == 0
		k.Pruning = []string{"", "nothing", "everything", "default"}[rng.Intn(4)]
		if rng.Intn(2) == 0 {
			k.MinGas = "50000000000aISLM"
		}
		if rng.Intn(2) == 0 {
			k.MaxTxGas = 300000
		}
		k.InvCheck = []uint{0, 1, 7}[rng.Intn(3)]
		k.Preconstr = rng.Intn(2) == 0
		if rng.Intn(3) > 0 {
			k.Schedule = rng.Int63() | 1
		}
		if rng.Intn(2) == 0 {
			// a replica that is stopped and started again along the way is still a replica
			for i := 0; i < 1+rng.Intn(4); i++ {
				k.RestartAt = append(k.RestartAt, 2+rng.Intn(55))
			}
		}
		ks = append(ks, k)
	}
	return ks
}

// spawnFollower runs a follower process and returns its traces.
func spawnFollower(r *report.R, histPath string, k replicaKnobs, workdir string, race bool) ([]blockTrace, map[string]int, error) {
	bin := os.Args[0]
	if race {
		if rb := filepath.Join(os.Getenv("VERIF_BIN"), "checks.race.test"); fileExists(rb) {
			bin = rb
		}
	}
	out := filepath.Join(workdir, "trace.json")
	dbdir := filepath.Join(workdir, "db")
	_ = os.MkdirAll(dbdir, 0o755)
	cmd := exec.Command(bin, "-test.run", "^TestFollower$", "-test.timeout", "0", "-test.count", "1")
	kb, _ := json.Marshal(k)
	env := []string{}
	for _, e := range os.Environ() {
		if strings.HasPrefix(e, "VERIF_OUT=") || strings.HasPrefix(e, "VERIF_REPLAY") || strings.HasPrefix(e, "GOMAXPROCS=") || strings.HasPrefix(e, "GOGC=") || strings.HasPrefix(e, "TZ=") || strings.HasPrefix(e, "GORACE=") {
			continue
		}
		env = append(env, e)
	}
	env = append(env, "VERIF_FOLLOWER="+histPath, "VERIF_FOLLOWER_KNOBS="+string(kb), "VERIF_FOLLOWER_OUT="+out, "VERIF_FOLLOWER_DIR="+dbdir,
		fmt.Sprintf("GOMAXPROCS=%d", maxInt(k.GOMAXPROCS, 1)), fmt.Sprintf("GOGC=%d", maxInt(k.GOGC, 100)), "TZ="+k.TZ)
	if race {
		env = append(env, "GORACE=halt_on_error=0 log_path="+filepath.Join(workdir, "race"))
	}
	cmd.Env = env
	logf, _ := os.Create(filepath.Join(workdir, "follower.log"))
	cmd.Stdout, cmd.Stderr = logf, logf
	err := cmd.Run()
	logf.Close()
	bz, rerr := os.ReadFile(out)
	if rerr != nil {
		tail, _ := os.ReadFile(filepath.Join(workdir, "follower.log"))
		if len(tail) > 1500 {
			tail = tail[len(tail)-1500:]
		}
		return nil, nil, fmt.Errorf("follower produced no trace (%v): %s", err, tail)
	}
	var res struct {
		Traces []blockTrace   `json:"traces"`
		Stats  map[string]int `json:"stats"`
	}
	if err := json.Unmarshal(bz, &res); err != nil {
		return nil, nil, err
	}
	return res.Traces, res.Stats, nil
}

func fileExists(p string) bool {
	_, err := os.Stat(p)
	return err == nil
}

func maxInt(a, b int) int {
	if a > b {
		return a
	}
	return b
}

func c01History(r *report.R, id string) {
	h, _ := histCfgFor(r, id)
	g := newHistGen(h, r.Rand(id))
	g.boostRewardFees = true // map-order-sensitive path: which delegations' rewards pay a fee
	nblocks := r.Pick(60, 200)
	if strings.HasPrefix(id, "gov/") {
		g.campEvery, g.campFailEvery, g.campKinds, g.slowBlocks = 2, 2, []int{0, 1, 2, 3, 3, 3, 4, 5, 7}, true
		nblocks = r.Pick(60, 120)
	}
	if strings.HasPrefix(id, "paired/") {
		g.focus = []int{21, 22, 23, 24, 27, 27, 27}
		nblocks = r.Pick(50, 100)
	}
	for b := 0; b < nblocks; b++ {
		g.block()
	}
	base := os.Getenv("VERIF_OUT")
	if base == "" {
		base = os.TempDir()
	}
	work := filepath.Join(base, strings.ReplaceAll(id, "/", "_"))
	_ = os.MkdirAll(work, 0o755)
	defer os.RemoveAll(work)
	hp := filepath.Join(work, "history.json")
	if err := saveHistory(h, g.n, hp); err != nil {
		r.Inconcl("cannot write history: %v", err)
		return
	}
	// the leader's own trace: an in-process replay with default knobs
	f, err := loadHistory(hp)
	if err != nil {
		r.Inconcl("cannot read history back: %v", err)
		return
	}
	leader, _, err := runReplica(f, replicaKnobs{DB: "memdb"}, "", nil)
	if err != nil {
		r.Inconcl("leader replay failed: %v", err)
		return
	}
	// the replay must reproduce the generating node itself
	if got := leader[len(leader)-1].AppHash; got != fmt.Sprintf("%x", g.n.AppHash) {
		r.Violation(id, "app-hash|generator-vs-replay", fmt.Sprintf("the node that generated the history ended at %x, an in-process replay of the same blocks at %s", g.n.AppHash, got), map[string]any{"cfg": h})
		return
	}
	nfollow := r.Pick(3, 6)
	knobs := followerKnobs(r, id, nfollow)
	if strings.HasPrefix(id, "gov/") || strings.HasPrefix(id, "paired/") {
		// every follower of a directed history restarts several times
		rr := r.Rand(id + "/restarts")
		for i := range knobs {
			knobs[i].RestartAt = nil
			for j := 0; j < 6; j++ {
				knobs[i].RestartAt = append(knobs[i].RestartAt, 3+rr.Intn(nblocks-4))
			}
		}
	}
	if os.Getenv("VERIF_RACE") == "1" {
		knobs[0].QueryStorm = 6
	}
	families, constructs := g.families(), 0
	for _, v := range g.constr {
		if v > 0 {
			constructs++
		}
	}
	for fi, k := range knobs {
		r.Eval(1)
		fw := filepath.Join(work, fmt.Sprintf("f%d", fi))
		_ = os.MkdirAll(fw, 0o755)
		tr, stats, err := spawnFollower(r, hp, k, fw, k.QueryStorm > 0)
		if err != nil {
			// a crashed replica is a divergence: it did not produce the blocks at all
			r.Violation(id, "replica-crashed", fmt.Sprintf("follower %d with knobs %s: %v", fi, k, err), map[string]any{"cfg": h, "knobs": k})
			continue
		}
		what, field, evDiff := compareTraces(leader, tr)
		for kk, v := range stats {
			r.Count("follower/"+kk, v)
		}
		r.Count("blocks_compared", len(tr))
		r.Count("blocks_with_differing_events(recorded only)", evDiff)
		if what != "" {
			sig := "divergence|" + field
			// diagnosis of one known cause: the follower lost an IBC channel capability (the
			// transaction fails with channel error 9 on it only) and agrees with the leader again
			// when the very same schedule is replayed with the Simulate calls left out
			if p, q, ok := firstTxDiff(leader, tr); ok && k.Schedule != 0 && p.Code == 0 && q.Code == 9 && q.Codespace == "channel" {
				k2 := k
				k2.NoSimulate = true
				fw2 := filepath.Join(work, fmt.Sprintf("f%d-nosim", fi))
				_ = os.MkdirAll(fw2, 0o755)
				if tr2, _, err2 := spawnFollower(r, hp, k2, fw2, false); err2 == nil {
					if w2, _, _ := compareTraces(leader, tr2); w2 == "" {
						sig = "divergence|tx-result.code|ibc-channel-capability-lost|only-with-Simulate-calls-between-the-DeliverTx-calls-of-a-block"
					}
				}
			}
			r.Violation(id, sig, fmt.Sprintf("follower %d (knobs %s) diverges from the leader: %s", fi, k, what), map[string]any{"cfg": h, "knobs": k})
			continue
		}
		if families >= 6 && constructs >= 1 {
			r.Nontriv(fmt.Sprintf("%s|follower%d|db=%s|sched=%v|procs=%d|tz=%s", id, fi, k.DB, k.Schedule != 0, k.GOMAXPROCS, k.TZ))
		}
		r.Count("replica_pairs_agreeing", 1)
	}
	for k, v := range g.ok {
		r.Count("tx_ok/"+k, v)
	}
	for k, v := range g.constr {
		r.Count("construct/"+k, v)
	}
	r.Sample("history", map[string]any{"id": id, "cfg": h, "blocks": len(leader), "families_ok": families, "constructs": g.constr, "knobs": knobs})
}
