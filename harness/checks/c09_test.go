//go:build verif

package checks

import (
	"strings"
	"fmt"
	"math/rand"
	"testing"
	"time"

	sdkmath "cosmossdk.io/math"
	sdk "github.com/cosmos/cosmos-sdk/types"
	authtypes "github.com/cosmos/cosmos-sdk/x/auth/types"
	sdkvesting "github.com/cosmos/cosmos-sdk/x/auth/vesting/types"

	vestingtypes "github.com/haqq-network/haqq/x/vesting/types"

	"verif/harness/report"
	"verif/harness/vn"
)

func TestC09(t *testing.T) {
	r := report.Start("C09")
	defer r.Finish()
	npure := r.Cases(40000, 1500000)
	for i := 0; i < npure; i++ {
		id := fmt.Sprintf("pure/%d", i)
		if !r.Want(id, i) {
			continue
		}
		c09Pure(r, id)
	}
	nh := r.Cases(320, 12000)
	for i := 0; i < nh; i++ {
		id := fmt.Sprintf("hist/%d", i)
		if !r.Want(id, i) {
			continue
		}
		c09History(r, id)
	}
}

// c09Pure drives the schedule functions directly and compares them, at every event
// instant ±1 s and at random instants, with the reference step function.
func c09Pure(r *report.R, id string) {
	rng := r.Rand(id)
	r.Eval(1)
	switch rng.Intn(4) {
	case 0:
		c09Read(r, id, rng)
	case 1:
		c09Disjunct(r, id, rng)
	case 2:
		c09Conjunct(r, id, rng)
	default:
		c09Account(r, id, rng)
	}
}

func c09Read(r *report.R, id string, rng *rand.Rand) {
	ps, sh := genPeriods(rng, 12, schedDenoms)
	start := rng.Int63n(2_000_000_000)
	end := refEnd(start, ps)
	total := ps.TotalAmount()
	slack := ""
	if rng.Intn(4) == 0 { // account end later than this schedule's end (the other schedule is longer)
		end += rng.Int63n(1000) + 1
		slack = "/slack"
	}
	evs := refEvents(start, ps)
	var prev map[string]sdkmath.Int
	for _, t := range probeTimes(rng, start, end, evs) {
		got := coinsMap(vestingtypes.ReadSchedule(start, end, ps, total, t))
		want := refRead(start, ps, t)
		if t >= end && t > start {
			want = refTotal(ps)
		}
		if !mapEq(got, want) {
			r.Violation(id, "ReadSchedule|value≠Σ(periods ended by t)", fmt.Sprintf("ReadSchedule(start=%d,end=%d,t=%d)=%s want %s periods=%s", start, end, t, mapStr(got), mapStr(want), periodsStr(ps)), nil)
			return
		}
		if prev != nil && !mapLTE(prev, got) {
			r.Violation(id, "ReadSchedule|not-monotone", fmt.Sprintf("decreases at t=%d", t), periodsStr(ps))
			return
		}
		prev = got
		gc := vestingtypes.ReadPastPeriodCount(start, end, ps, t)
		wc := refCount(start, ps, t)
		if t >= end && t > start {
			wc = len(ps)
		}
		if gc != wc {
			r.Violation(id, "ReadPastPeriodCount|count", fmt.Sprintf("count(start=%d,end=%d,t=%d)=%d want %d periods=%s", start, end, t, gc, wc, periodsStr(ps)), nil)
			return
		}
		r.Count("read_probes", 1)
	}
	r.Nontriv("read|" + sh.String() + slack)
	r.Sample("read", map[string]any{"start": start, "end": end, "periods": periodsStr(ps)})
}

func startsPair(rng *rand.Rand) (int64, int64, string) {
	a := rng.Int63n(2_000_000_000)
	switch rng.Intn(4) {
	case 0:
		return a, a, "same-start"
	case 1:
		return a, a + rng.Int63n(50) + 1, "B-later-near"
	case 2:
		return a, a + rng.Int63n(10_000_000) + 1, "B-later"
	default:
		b := a - rng.Int63n(10_000_000) - 1
		if b < 0 {
			b = 0
		}
		return a, b, "B-earlier"
	}
}

func c09Disjunct(r *report.R, id string, rng *rand.Rand) {
	pa, sa := genPeriods(rng, 8, schedDenoms)
	pb, sb := genPeriods(rng, 8, schedDenoms)
	ta, tb, rel := startsPair(rng)
	ca, cb := clonePeriods(pa), clonePeriods(pb)
	start, end, res := vestingtypes.DisjunctPeriods(ta, tb, ca, cb)
	key := "disjunct|" + sa.String() + "|" + sb.String() + "|" + rel
	desc := func() string {
		return fmt.Sprintf("A(start=%d)%s B(start=%d)%s -> (start=%d,end=%d)%s", ta, periodsStr(pa), tb, periodsStr(pb), start, end, periodsStr(res))
	}
	if start != min64(ta, tb) || end != max64(refEnd(ta, pa), refEnd(tb, pb)) {
		// end must be the last release event
		r.Violation(id, "DisjunctPeriods|start/end|"+rel, "wrong start or end: "+desc(), nil)
		return
	}
	for _, p := range res {
		if p.Length < 0 {
			r.Violation(id, "DisjunctPeriods|negative-length|"+rel, desc(), nil)
			return
		}
	}
	// exactly the union of both schedules' release events
	want := mergedEvents(ta, pa, tb, pb)
	got := eventsByTime(start, res)
	simult := len(want) < len(pa)+len(pb)
	for t, w := range want {
		if !mapEq(got[t], w) {
			r.Violation(id, "DisjunctPeriods|events≠union|"+rel, fmt.Sprintf("event at t=%d is %s want %s; %s", t, mapStr(got[t]), mapStr(w), desc()), nil)
			return
		}
	}
	for t, g := range got {
		if _, ok := want[t]; !ok && len(g) > 0 {
			r.Violation(id, "DisjunctPeriods|events≠union|"+rel, fmt.Sprintf("spurious event at t=%d %s; %s", t, mapStr(g), desc()), nil)
			return
		}
	}
	// pointwise: after both have started it releases the sum of the two
	both := max64(ta, tb)
	for _, t := range probeTimes(rng, both, end, refEvents(ta, pa), refEvents(tb, pb)) {
		if t <= both {
			continue
		}
		g := refRead(start, res, t) // value of the *returned* schedule under the reference reading
		w := addMap(refRead(ta, pa, t), refRead(tb, pb, t))
		if !mapEq(g, w) {
			r.Violation(id, "DisjunctPeriods|sum|"+rel, fmt.Sprintf("t=%d merged=%s A+B=%s; %s", t, mapStr(g), mapStr(w), desc()), nil)
			return
		}
		// and through the implementation's own reader
		g2 := coinsMap(vestingtypes.ReadSchedule(start, end, res, res.TotalAmount(), t))
		if !mapEq(g2, w) {
			r.Violation(id, "DisjunctPeriods+ReadSchedule|sum|"+rel, fmt.Sprintf("t=%d read=%s A+B=%s; %s", t, mapStr(g2), mapStr(w), desc()), nil)
			return
		}
		r.Count("disjunct_probes", 1)
	}
	if simult {
		key += "|simultaneous"
	}
	r.Nontriv(key)
	r.Sample("disjunct", desc())
}

func c09Conjunct(r *report.R, id string, rng *rand.Rand) {
	pa, sa := genPeriods(rng, 8, schedDenoms)
	var pb sdkvesting.Periods
	var sb schedShape
	capForm := rng.Intn(2) == 0
	if capForm { // the form clawback uses: a single zero-length cap period
		pb = sdkvesting.Periods{{Length: 0, Amount: vestingtypes.ReadSchedule(0, 1<<60, pa, pa.TotalAmount(), rng.Int63n(refEnd(0, pa)+2))}}
		sb = schedShape{n: 1, zeroLen: true}
	} else {
		pb, sb = genPeriods(rng, 8, schedDenoms)
	}
	ta, tb, rel := startsPair(rng)
	if capForm {
		tb, rel = ta, "cap"
	}
	start, end, res := vestingtypes.ConjunctPeriods(ta, tb, clonePeriods(pa), clonePeriods(pb))
	desc := func() string {
		return fmt.Sprintf("A(start=%d)%s B(start=%d)%s -> (start=%d,end=%d)%s", ta, periodsStr(pa), tb, periodsStr(pb), start, end, periodsStr(res))
	}
	if start != min64(ta, tb) {
		r.Violation(id, "ConjunctPeriods|start|"+rel, desc(), nil)
		return
	}
	if end != refEnd(start, res) {
		r.Violation(id, "ConjunctPeriods|end|"+rel, desc(), nil)
		return
	}
	both := max64(ta, tb)
	hi := max64(refEnd(ta, pa), refEnd(tb, pb))
	for _, t := range probeTimes(rng, both, hi, refEvents(ta, pa), refEvents(tb, pb)) {
		if t <= both {
			continue
		}
		g := refRead(start, res, t)
		w := minMap(refRead(ta, pa, t), refRead(tb, pb, t))
		if !mapEq(g, w) {
			r.Violation(id, "ConjunctPeriods|min|"+rel, fmt.Sprintf("t=%d capped=%s min(A,B)=%s; %s", t, mapStr(g), mapStr(w), desc()), nil)
			return
		}
		r.Count("conjunct_probes", 1)
	}
	r.Nontriv("conjunct|" + sa.String() + "|" + sb.String() + "|" + rel)
	r.Sample("conjunct", desc())
}

// genVestingAccount builds a consistent clawback vesting account: lockup and vesting
// period lists with identical totals.
func genVestingPeriodsPair(rng *rand.Rand, denoms []string) (lock, vest sdkvesting.Periods, shape string) {
	lock, ls := genPeriods(rng, 8, denoms)
	total := lock.TotalAmount()
	// vesting: split the same total into k chunks
	k := 1 + rng.Intn(6)
	remaining := total
	for i := 0; i < k; i++ {
		var amt sdk.Coins
		if i == k-1 {
			amt = remaining
		} else {
			amt = sdk.NewCoins()
			for _, c := range remaining {
				part := sdkmath.NewIntFromBigInt(new(bigInt).Rand(rng, c.Amount.BigInt()))
				if part.IsPositive() && rng.Intn(5) > 0 {
					amt = amt.Add(sdk.NewCoin(c.Denom, part))
				}
			}
			if amt.IsZero() {
				continue
			}
			remaining = remaining.Sub(amt...)
		}
		if amt.IsZero() {
			continue
		}
		// vesting periods are at least 1 s long: the message layer rejects shorter ones, and
		// only the lockup side can get a zero-length ("instant unlock") period by default
		var l int64
		switch rng.Intn(5) {
		case 0:
			l = 1
		case 1:
			l = int64(rng.Intn(10) + 1)
		default:
			l = int64(rng.Intn(100000) + 1)
		}
		vest = append(vest, sdkvesting.Period{Length: l, Amount: amt})
	}
	return lock, vest, fmt.Sprintf("%s/v%d", ls.String(), bucket(len(vest)))
}

func c09Account(r *report.R, id string, rng *rand.Rand) {
	lock, vest, shape := genVestingPeriodsPair(rng, schedDenoms)
	start := rng.Int63n(2_000_000_000) + 1
	addr := sdk.AccAddress(make([]byte, 20))
	funder := sdk.AccAddress(append(make([]byte, 19), 1))
	va := vestingtypes.NewClawbackVestingAccount(authtypes.NewBaseAccountWithAddress(addr), funder, lock.TotalAmount(), time.Unix(start, 0), lock, vest, nil)
	orig := coinsMap(va.OriginalVesting)
	end := va.EndTime
	desc := func() string {
		return fmt.Sprintf("start=%d end=%d lockup=%s vesting=%s", start, end, periodsStr(lock), periodsStr(vest))
	}
	if err := va.Validate(); err != nil {
		// all periods zero-length: start == end, outside the domain of valid accounts
		r.Count("skipped_degenerate_account", 1)
		return
	}
	times := probeTimes(rng, start, end, refEvents(start, lock), refEvents(start, vest))
	for _, t := range times {
		bt := time.Unix(t, 0)
		vested, unvested := coinsMap(va.GetVestedCoins(bt)), coinsMap(va.GetVestingCoins(bt))
		unlocked, locked := coinsMap(va.GetUnlockedCoins(bt)), coinsMap(va.GetLockedUpCoins(bt))
		wv, wu := refRead(start, vest, t), refRead(start, lock, t)
		if t >= end && t > start {
			wv, wu = orig, orig
		}
		if !mapEq(vested, wv) || !mapEq(unlocked, wu) {
			r.Violation(id, "account|vested/unlocked≠reference", fmt.Sprintf("t=%d vested=%s want %s unlocked=%s want %s; %s", t, mapStr(vested), mapStr(wv), mapStr(unlocked), mapStr(wu), desc()), nil)
			return
		}
		if !mapEq(addMap(vested, unvested), orig) || !mapEq(addMap(locked, unlocked), orig) {
			r.Violation(id, "account|parts≠original", fmt.Sprintf("t=%d vested+unvested=%s locked+unlocked=%s original=%s; %s", t, mapStr(addMap(vested, unvested)), mapStr(addMap(locked, unlocked)), mapStr(orig), desc()), nil)
			return
		}
		for _, cs := range []sdk.Coins{va.GetVestingCoins(bt), va.GetLockedUpCoins(bt), va.GetVestedCoins(bt), va.GetUnlockedCoins(bt), va.LockedCoins(bt), va.GetUnlockedVestedCoins(bt), va.GetLockedUpVestedCoins(bt)} {
			if cs.IsAnyNegative() {
				r.Violation(id, "account|negative", fmt.Sprintf("t=%d %s; %s", t, cs, desc()), nil)
				return
			}
		}
		// LockedCoins with nothing delegated = original − min(unlocked, vested)
		wantLocked := subMap(orig, minMap(wu, wv))
		if g := coinsMap(va.LockedCoins(bt)); !mapEq(g, wantLocked) {
			r.Violation(id, "account|LockedCoins", fmt.Sprintf("t=%d LockedCoins=%s want %s; %s", t, mapStr(g), mapStr(wantLocked), desc()), nil)
			return
		}
		r.Count("account_probes", 1)
	}
	// clawback at a probe time
	ct := times[rng.Intn(len(times))]
	phase := "mid"
	if ct <= start {
		phase = "before-start"
	} else if ct >= end {
		phase = "after-end"
	}
	newAcc, claw := va.ComputeClawback(ct)
	wVested := refRead(start, vest, ct)
	if ct >= end {
		wVested = orig
	}
	if !mapEq(coinsMap(claw), subMap(orig, wVested)) {
		r.Violation(id, "ComputeClawback|amount≠unvested", fmt.Sprintf("clawback at %d takes %s, unvested is %s; %s", ct, claw, mapStr(subMap(orig, wVested)), desc()), nil)
		return
	}
	if !mapEq(coinsMap(newAcc.OriginalVesting), wVested) {
		r.Violation(id, "ComputeClawback|kept≠vested", fmt.Sprintf("clawback at %d keeps %s, vested is %s; %s", ct, newAcc.OriginalVesting, mapStr(wVested), desc()), nil)
		return
	}
	// resulting account: both schedules total the kept amount, ends within EndTime, start<=end
	if !mapEq(refTotal(newAcc.LockupPeriods), wVested) || !mapEq(refTotal(newAcc.VestingPeriods), wVested) ||
		refEnd(start, newAcc.LockupPeriods) > newAcc.EndTime || refEnd(start, newAcc.VestingPeriods) > newAcc.EndTime || newAcc.EndTime < start {
		r.Violation(id, "ComputeClawback|inconsistent-account", fmt.Sprintf("clawback at %d -> end=%d lockup=%s vesting=%s; %s", ct, newAcc.EndTime, periodsStr(newAcc.LockupPeriods), periodsStr(newAcc.VestingPeriods), desc()), nil)
		return
	}
	if len(wVested) > 0 {
		if err := newAcc.Validate(); err != nil {
			sig := "ComputeClawback|Validate"
			if newAcc.EndTime == newAcc.GetStartTime() {
				sig += "|kept-coins-all-release-at-start(end==start)"
			}
			r.Violation(id, sig, fmt.Sprintf("clawback at %d: %v; %s", ct, err, desc()), nil)
			return
		}
	} else if newAcc.Validate() != nil {
		r.Count("note_fully_clawed_back_account_fails_Validate", 1)
	}
	// every vested coin stays subject to its lockup: new unlocked(t) = min(old unlocked(t), kept)
	for _, t := range times {
		if t <= start {
			continue
		}
		g := coinsMap(newAcc.GetUnlockedCoins(time.Unix(t, 0)))
		old := refRead(start, lock, t)
		if t >= end {
			old = orig
		}
		w := minMap(old, wVested)
		if !mapEq(g, w) {
			r.Violation(id, "ComputeClawback|lockup-after-clawback", fmt.Sprintf("clawback at %d: unlocked(%d)=%s want min(old unlocked, kept)=%s; newlockup=%s newEnd=%d; %s", ct, t, mapStr(g), mapStr(w), periodsStr(newAcc.LockupPeriods), newAcc.EndTime, desc()), nil)
			return
		}
		if gv := coinsMap(newAcc.GetVestedCoins(time.Unix(t, 0))); t >= ct && !mapEq(gv, wVested) {
			r.Violation(id, "ComputeClawback|vested-after-clawback", fmt.Sprintf("clawback at %d: vested(%d)=%s want %s; %s", ct, t, mapStr(gv), mapStr(wVested), desc()), nil)
			return
		}
	}
	r.Nontriv("account|" + shape + "|claw-" + phase)
	r.Sample("account", desc())
}

func subMap(a, b map[string]sdkmath.Int) map[string]sdkmath.Int {
	out := map[string]sdkmath.Int{}
	for k, v := range a {
		out[k] = v
	}
	for k, v := range b {
		o, ok := out[k]
		if !ok {
			o = sdkmath.ZeroInt()
		}
		out[k] = o.Sub(v)
	}
	for k, v := range out {
		if v.IsZero() {
			delete(out, k)
		}
	}
	return out
}

func min64(a, b int64) int64 {
	if a < b {
		return a
	}
	return b
}

func max64(a, b int64) int64 {
	if a > b {
		return a
	}
	return b
}

// ---- message-level histories ------------------------------------------------

// refVA is the reference account: a list of grants, each with the start time stated in
// the message that created it.
type refGrant struct {
	start      int64
	lock, vest sdkvesting.Periods
}

type refVA struct {
	grants []refGrant
	funder string
}

func (v *refVA) started() int64 {
	m := int64(0)
	for _, g := range v.grants {
		if g.start > m {
			m = g.start
		}
	}
	return m
}

func (v *refVA) unlocked(t int64) map[string]sdkmath.Int {
	out := map[string]sdkmath.Int{}
	for _, g := range v.grants {
		out = addMap(out, refRead(g.start, g.lock, t))
	}
	return out
}

func (v *refVA) vested(t int64) map[string]sdkmath.Int {
	out := map[string]sdkmath.Int{}
	for _, g := range v.grants {
		out = addMap(out, refRead(g.start, g.vest, t))
	}
	return out
}

func (v *refVA) total() map[string]sdkmath.Int {
	out := map[string]sdkmath.Int{}
	for _, g := range v.grants {
		out = addMap(out, refTotal(g.lock))
	}
	return out
}

func (v *refVA) events() []refEvent {
	var out []refEvent
	for _, g := range v.grants {
		out = append(out, refEvents(g.start, g.lock)...)
		out = append(out, refEvents(g.start, g.vest)...)
	}
	return out
}

func c09History(r *report.R, id string) {
	rng := r.Rand(id)
	cfg := vn.Config{Seed: uint64(r.Seed), NumVals: 1, NumAccounts: 6}
	n := vn.New(cfg)
	accs := n.Accounts
	funder, funder2, stranger := accs[0], accs[1], accs[2]
	denoms := []string{vn.Denom}
	var target vn.Account
	viaConvert := rng.Intn(2) == 0
	if viaConvert {
		target = accs[3] // existing EthAccount converted into a vesting account
	} else {
		target = vn.DetAccount(uint64(r.Seed), "vest", rng.Intn(100000))
	}
	ref := &refVA{funder: funder.Addr.String()}
	roles := []vn.Account{funder, funder2, stranger}
	curFunder := func() vn.Account {
		for _, a := range roles {
			if a.Addr.String() == ref.funder {
				return a
			}
		}
		return funder
	}
	nonFunder := func() vn.Account {
		for {
			a := roles[rng.Intn(len(roles))]
			if a.Addr.String() != ref.funder {
				return a
			}
		}
	}
	now := func() int64 { return n.Time.Unix() }
	var trace []string
	fee := sdk.NewCoins(sdk.NewCoin(vn.Denom, sdkmath.NewInt(1_000_000)))
	deliver := func(signer vn.Account, msg sdk.Msg) (bool, string) {
		res := n.Deliver(n.CosmosTx(vn.CosmosArgs{Msgs: []sdk.Msg{msg}, Gas: 3_000_000, Fee: fee}, signer))
		return res.Code == 0, res.Log
	}
	getVA := func() *vestingtypes.ClawbackVestingAccount {
		acc := n.App.AccountKeeper.GetAccount(n.Ctx(), target.Addr)
		va, _ := acc.(*vestingtypes.ClawbackVestingAccount)
		return va
	}
	scale := func(ps sdkvesting.Periods) sdkvesting.Periods { // keep grants affordable
		out := clonePeriods(ps)
		for i := range out {
			c := out[i].Amount[0]
			a := c.Amount
			if a.GT(sdkmath.NewIntWithDecimal(1000, 18)) {
				a = sdkmath.NewIntWithDecimal(1000, 18)
			}
			out[i].Amount = sdk.NewCoins(sdk.NewCoin(vn.Denom, a))
		}
		return out
	}
	checkAgainstRef := func(op, cond string) bool {
		va := getVA()
		if va == nil {
			return true
		}
		if err := va.Validate(); err != nil && len(coinsMap(va.OriginalVesting)) > 0 {
			r.Violation(id, op+"|"+cond+"|invalid-account", err.Error(), trace)
			return false
		}
		if !mapEq(coinsMap(va.OriginalVesting), ref.totalKept()) {
			r.Violation(id, op+"|"+cond+"|original≠Σgrants", fmt.Sprintf("original=%s ref=%s", va.OriginalVesting, mapStr(ref.totalKept())), trace)
			return false
		}
		both := ref.started()
		hi := va.EndTime
		for _, t := range probeTimes(rng, both, hi, ref.events()) {
			if t <= both {
				continue
			}
			bt := time.Unix(t, 0)
			gu, gv := coinsMap(va.GetUnlockedCoins(bt)), coinsMap(va.GetVestedCoins(bt))
			wu, wv := ref.unlockedAt(t), ref.vestedAt(t)
			if !mapEq(gu, wu) {
				rel := "early"
				if mapLTE(gu, wu) {
					rel = "late"
				}
				r.Violation(id, op+"|"+cond+"|unlocked≠Σgrants|"+rel, fmt.Sprintf("t=%d unlocked=%s, grants at their stated start times give %s (account start=%d lockup=%s)", t, mapStr(gu), mapStr(wu), va.GetStartTime(), periodsStr(va.LockupPeriods)), trace)
				return false
			}
			if !mapEq(gv, wv) {
				rel := "early"
				if mapLTE(gv, wv) {
					rel = "late"
				}
				r.Violation(id, op+"|"+cond+"|vested≠Σgrants|"+rel, fmt.Sprintf("t=%d vested=%s, grants at their stated start times give %s (account start=%d vesting=%s)", t, mapStr(gv), mapStr(wv), va.GetStartTime(), periodsStr(va.VestingPeriods)), trace)
				return false
			}
			r.Count("history_probes", 1)
		}
		return true
	}
	steps := 3 + rng.Intn(6)
	n.BeginBlock(vn.BlockOpts{})
	defer func() {
		if n.InBlock {
			n.EndBlock()
			n.Commit()
		}
		r.Sample("history", map[string]any{"id": id, "trace": trace})
	}()
	for s := 0; s < steps; s++ {
		// advance time
		n.EndBlock()
		n.Commit()
		dt := time.Duration(rng.Intn(3)+1) * time.Second
		if rng.Intn(2) == 0 {
			dt = time.Duration(rng.Intn(200000)+1) * time.Second
		}
		n.BeginBlock(vn.BlockOpts{Dt: dt})
		r.Eval(1)
		exists := getVA() != nil
		k := rng.Intn(10)
		if !exists {
			k = 0
		}
		switch {
		case k < 5: // create or merge a grant
			lock, vest, _ := genVestingPeriodsPair(rng, denoms)
			lock, vest = scale(lock), scale(vest)
			// re-equalise totals after scaling: make vesting a single period with lockup's total
			if !vestingtypes.CoinEq(lock.TotalAmount(), vest.TotalAmount()) {
				vest = sdkvesting.Periods{{Length: vest[0].Length, Amount: lock.TotalAmount()}}
			}
			var st int64
			var cond string
			accStart := int64(0)
			if exists {
				accStart = getVA().GetStartTime()
			}
			switch rng.Intn(4) {
			case 0:
				st, cond = now()-rng.Int63n(100000)-1, "start-past"
			case 1:
				st, cond = now()+rng.Int63n(100000)+1, "start-future"
			case 2:
				st, cond = now(), "start-now"
			default:
				st, cond = accStart, "start=account-start"
				if !exists {
					st, cond = now()-5, "start-past"
				}
			}
			if st <= 0 {
				st = 1
			}
			if exists {
				if st > accStart {
					cond += ",grant-start>account-start"
				} else if st < accStart {
					cond += ",grant-start<account-start"
				}
			}
			signer := curFunder()
			if rng.Intn(8) == 0 {
				signer = nonFunder()
			}
			var msg sdk.Msg
			op := "CreateClawbackVestingAccount"
			if viaConvert {
				op = "ConvertIntoVestingAccount"
				// one list may be left out: the module then substitutes a single zero-length period
				// carrying the other list's total (instant unlock / instant vesting)
				switch rng.Intn(6) {
				case 0:
					msg = vestingtypes.NewMsgConvertIntoVestingAccount(signer.Addr, target.Addr, time.Unix(st, 0).UTC(), nil, vest, exists, false, nil)
					lock = sdkvesting.Periods{{Length: 0, Amount: vest.TotalAmount()}}
					cond += ",lockup-left-out"
				case 1:
					msg = vestingtypes.NewMsgConvertIntoVestingAccount(signer.Addr, target.Addr, time.Unix(st, 0).UTC(), lock, nil, exists, false, nil)
					vest = sdkvesting.Periods{{Length: 0, Amount: lock.TotalAmount()}}
					cond += ",vesting-left-out"
				}
			}
			if viaConvert && msg == nil {
				msg = vestingtypes.NewMsgConvertIntoVestingAccount(signer.Addr, target.Addr, time.Unix(st, 0).UTC(), lock, vest, exists, false, nil)
			} else if !viaConvert {
				msg = vestingtypes.NewMsgCreateClawbackVestingAccount(signer.Addr, target.Addr, time.Unix(st, 0).UTC(), lock, vest, exists)
			}
			if exists {
				op += "(merge)"
			}
			balBefore := n.Balance(target.Addr, vn.Denom)
			ok, log := deliver(signer, msg)
			trace = append(trace, fmt.Sprintf("t=%d %s by %s start=%d lock=%s vest=%s ok=%v", now(), op, who(signer, funder, funder2, stranger), st, periodsStr(lock), periodsStr(vest), ok))
			if ok {
				if exists && signer.Addr.String() != ref.funder {
					r.Violation(id, op+"|non-funder-merge-accepted", "a grant was merged by an account that is not the recorded funder", trace)
					return
				}
				if !exists {
					ref.funder = signer.Addr.String()
				}
				ref.grants = append(ref.grants, refGrant{start: st, lock: lock, vest: vest})
				if got := n.Balance(target.Addr, vn.Denom).Sub(balBefore); !got.Equal(lock.TotalAmount().AmountOf(vn.Denom)) {
					r.Violation(id, op+"|grant-not-transferred", fmt.Sprintf("account received %s for a grant of %s", got, lock.TotalAmount()), trace)
					return
				}
				if !checkAgainstRef(op, cond) {
					return
				}
				r.Nontriv("hist|" + op + "|" + cond)
				if strings.Contains(cond, "left-out") {
					r.Count("grants_with_a_list_left_out_accepted", 1)
				}
			} else {
				r.Count("rejected/"+op, 1)
				r.Note("rejected %s: %.90s", op, log)
				if strings.Contains(cond, "left-out") {
					r.Note("rejected with a list left out (%s): %.200s", cond, log)
				}
			}
		case k < 7: // clawback
			signer := curFunder()
			isFunder := true
			if rng.Intn(3) == 0 {
				signer, isFunder = nonFunder(), false
			}
			dest := accs[4]
			va := getVA()
			t := now()
			// unvested according to the reference grants
			wantUnvested := subMap(ref.total(), ref.vested(t))
			if t >= va.EndTime {
				wantUnvested = map[string]sdkmath.Int{}
			}
			oldUnlocked := func(tt int64) map[string]sdkmath.Int { return coinsMap(va.GetUnlockedCoins(time.Unix(tt, 0))) }
			dBefore, aBefore := n.Balance(dest.Addr, vn.Denom), n.Balance(target.Addr, vn.Denom)
			msg := vestingtypes.NewMsgClawback(signer.Addr, target.Addr, dest.Addr)
			ok, _ := deliver(signer, msg)
			trace = append(trace, fmt.Sprintf("t=%d Clawback by %s ok=%v", t, who(signer, funder, funder2, stranger), ok))
			moved := n.Balance(dest.Addr, vn.Denom).Sub(dBefore)
			if !isFunder || signer.Addr.String() != ref.funder {
				if ok || !moved.IsZero() {
					r.Violation(id, "Clawback|non-funder", fmt.Sprintf("clawback by a non-funder succeeded=%v and moved %s", ok, moved), trace)
					return
				}
				r.Nontriv("hist|Clawback|non-funder-rejected")
				continue
			}
			if !ok {
				r.Count("rejected/Clawback", 1)
				continue
			}
			wu := wantUnvested[vn.Denom]
			if wu.IsNil() {
				wu = sdkmath.ZeroInt()
			}
			if !moved.Equal(wu) {
				r.Violation(id, "Clawback|moved≠unvested", fmt.Sprintf("destination received %s, unvested was %s", moved, wu), trace)
				return
			}
			if lost := aBefore.Sub(n.Balance(target.Addr, vn.Denom)); !lost.Equal(wu) {
				r.Violation(id, "Clawback|account-lost≠unvested", fmt.Sprintf("account lost %s, unvested was %s", lost, wu), trace)
				return
			}
			nv := getVA()
			kept := subMap(coinsMap(va.OriginalVesting), wantUnvested)
			if !wu.IsZero() {
				if !mapEq(coinsMap(nv.OriginalVesting), kept) {
					r.Violation(id, "Clawback|kept≠vested", fmt.Sprintf("kept %s want %s", nv.OriginalVesting, mapStr(kept)), trace)
					return
				}
				if len(kept) > 0 {
					if err := nv.Validate(); err != nil {
						sig := "Clawback|invalid-account"
						if nv.EndTime == nv.GetStartTime() {
							sig += "|kept-coins-all-release-at-start(end==start)"
						}
						r.Violation(id, sig, err.Error(), trace)
						return
					}
				}
				for _, tt := range probeTimes(rng, nv.GetStartTime(), va.EndTime, refEvents(va.GetStartTime(), va.LockupPeriods)) {
					if tt <= va.GetStartTime() {
						continue
					}
					g := coinsMap(nv.GetUnlockedCoins(time.Unix(tt, 0)))
					w := minMap(oldUnlocked(tt), kept)
					if !mapEq(g, w) {
						r.Violation(id, "Clawback|lockup-after-clawback", fmt.Sprintf("unlocked(%d)=%s want %s", tt, mapStr(g), mapStr(w)), trace)
						return
					}
				}
				oldVested := func(tt int64) map[string]sdkmath.Int { return coinsMap(va.GetVestedCoins(time.Unix(tt, 0))) }
				for _, tt := range probeTimes(rng, nv.GetStartTime(), va.EndTime, refEvents(va.GetStartTime(), va.VestingPeriods)) {
					if tt <= va.GetStartTime() {
						continue
					}
					g := coinsMap(nv.GetVestedCoins(time.Unix(tt, 0)))
					w := minMap(oldVested(tt), kept)
					if !mapEq(g, w) {
						r.Violation(id, "Clawback|vesting-after-clawback", fmt.Sprintf("vested(%d)=%s want %s", tt, mapStr(g), mapStr(w)), trace)
						return
					}
				}
				// the clawed-back account, verified pointwise above, is the new reference
				ref.grants = []refGrant{{start: nv.GetStartTime(), lock: clonePeriods(nv.LockupPeriods), vest: clonePeriods(nv.VestingPeriods)}}
			}
			phase := "mid"
			if wu.IsZero() {
				phase = "nothing-unvested"
			} else if len(kept) == 0 {
				phase = "everything-unvested"
			}
			r.Nontriv("hist|Clawback|" + phase)
		case k < 9: // funder update
			signer := curFunder()
			legit := true
			if rng.Intn(3) == 0 {
				signer, legit = nonFunder(), false
			}
			newF := nonFunder()
			ok, _ := deliver(signer, vestingtypes.NewMsgUpdateVestingFunder(signer.Addr, newF.Addr, target.Addr))
			trace = append(trace, fmt.Sprintf("t=%d UpdateVestingFunder by %s ok=%v", now(), who(signer, funder, funder2, stranger), ok))
			if ok && !legit {
				r.Violation(id, "UpdateVestingFunder|non-funder", "funder changed by an account that is not the funder", trace)
				return
			}
			if ok {
				ref.funder = newF.Addr.String()
				if getVA().FunderAddress != ref.funder {
					r.Violation(id, "UpdateVestingFunder|not-recorded", "funder not updated", trace)
					return
				}
				r.Nontriv("hist|UpdateVestingFunder|ok")
			} else if !legit {
				r.Nontriv("hist|UpdateVestingFunder|non-funder-rejected")
			}
		default: // convert back to a normal account: only when nothing is locked or unvested
			va := getVA()
			t := now()
			_ = va
			mayConvert := mapEq(ref.vested(t), ref.total()) && mapEq(ref.unlocked(t), ref.total())
			ok, _ := deliver(target, vestingtypes.NewMsgConvertVestingAccount(target.Addr))
			trace = append(trace, fmt.Sprintf("t=%d ConvertVestingAccount ok=%v", t, ok))
			if ok && !mayConvert {
				r.Violation(id, "ConvertVestingAccount|while-locked-or-unvested", "account converted to a plain account while the reference still has locked or unvested coins", trace)
				return
			}
			if ok {
				r.Nontriv("hist|ConvertVestingAccount|ok")
				return
			}
		}
	}
}

func who(s, funder, funder2, stranger vn.Account) string {
	switch {
	case s.Addr.Equals(funder.Addr):
		return "funder"
	case s.Addr.Equals(funder2.Addr):
		return "funder2"
	case s.Addr.Equals(stranger.Addr):
		return "stranger"
	}
	return "holder"
}

func (v *refVA) totalKept() map[string]sdkmath.Int { return v.total() }

func (v *refVA) unlockedAt(t int64) map[string]sdkmath.Int { return v.unlocked(t) }
func (v *refVA) vestedAt(t int64) map[string]sdkmath.Int   { return v.vested(t) }
