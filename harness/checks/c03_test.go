//go:build verif

package checks

import (
	"time"
	"fmt"
	"math/big"
	"math/rand"
	"sort"
	"testing"

	sdkmath "cosmossdk.io/math"
	"github.com/cosmos/cosmos-sdk/codec"
	codectypes "github.com/cosmos/cosmos-sdk/codec/types"
	sdk "github.com/cosmos/cosmos-sdk/types"
	txtypes "github.com/cosmos/cosmos-sdk/types/tx"
	"github.com/cosmos/cosmos-sdk/types/tx/signing"
	sdkvesting "github.com/cosmos/cosmos-sdk/x/auth/vesting/types"
	banktypes "github.com/cosmos/cosmos-sdk/x/bank/types"
	"github.com/ethereum/go-ethereum/common"
	ethtypes "github.com/ethereum/go-ethereum/core/types"

	haqqtypes "github.com/haqq-network/haqq/types"
	evmtypes "github.com/haqq-network/haqq/x/evm/types"
	feemarkettypes "github.com/haqq-network/haqq/x/feemarket/types"
	vestingtypes "github.com/haqq-network/haqq/x/vesting/types"

	"verif/harness/report"
	"verif/harness/vn"
)

var c03Kinds = []string{"eth-legacy", "eth-accesslist", "eth-dynamicfee", "cosmos-direct", "cosmos-amino", "eip712-web3ext", "eip712-pubkey-legacytyped", "eip712-pubkey"}

type c03Mut struct {
	path string
	f    func(raw *txtypes.TxRaw, rng *rand.Rand) bool // returns false when not applicable
}

func TestC03(t *testing.T) {
	r := report.Start("C03")
	defer r.Finish()
	nbases := r.Cases(48, 1600)
	for i := 0; i < nbases; i++ {
		id := fmt.Sprintf("base/%d", i)
		if !r.Want(id, i) {
			continue
		}
		c03Base(r, id, c03Kinds[i%len(c03Kinds)])
	}
	nseq := r.Cases(160, 4800)
	for i := 0; i < nseq; i++ {
		id := fmt.Sprintf("nonce/%d", i)
		if !r.Want(id, i) {
			continue
		}
		c03Nonce(r, id)
	}
}

func c03Chain(r *report.R, rng *rand.Rand) *vn.Node {
	baseFeeOn := rng.Intn(2) == 0
	cfg := vn.Config{Seed: uint64(r.Seed), NumVals: 1, NumAccounts: 6}
	cfg.Mutate = func(cdc codec.Codec, gs haqqtypes.GenesisState) {
		fm := feemarkettypes.DefaultGenesisState()
		fm.Params.NoBaseFee = !baseFeeOn
		fm.Params.BaseFee = sdkmath.NewInt(1000)
		fm.Params.MinGasPrice = sdk.ZeroDec()
		gs[feemarkettypes.ModuleName] = cdc.MustMarshalJSON(fm)
	}
	n := vn.New(cfg)
	// a couple of blocks of unrelated traffic so that sequences and account numbers are not all zero
	for b := 0; b < 2; b++ {
		n.BeginBlock(vn.BlockOpts{})
		a := n.Accounts[5]
		n.Deliver(n.CosmosTx(vn.CosmosArgs{Msgs: []sdk.Msg{banktypes.NewMsgSend(a.Addr, n.Accounts[4].Addr, vn.Coins(3))}, Gas: 200000, Fee: vn.Coins(200000 * 2000)}, a))
		n.EndBlock()
		n.Commit()
	}
	return n
}

// buildBase returns the signed base transaction of a kind, sent by a, paying b.
func c03BuildBase(n *vn.Node, kind string, a, b vn.Account, rng *rand.Rand, chainID string, eip155 *big.Int) ([]byte, error) {
	amt := int64(rng.Intn(100000) + 1)
	gas := uint64(300000)
	fee := vn.Coins(int64(gas) * 2000)
	msgs := []sdk.Msg{banktypes.NewMsgSend(a.Addr, b.Addr, vn.Coins(amt))}
	switch kind {
	case "eth-legacy", "eth-accesslist", "eth-dynamicfee":
		to := b.Eth
		args := vn.EthArgs{Nonce: n.EthNonce(a.Eth), To: &to, Value: big.NewInt(amt), Gas: 50000 + uint64(rng.Intn(1000)), GasPrice: big.NewInt(3000), GasFeeCap: big.NewInt(3000), GasTipCap: big.NewInt(2), ChainID: eip155, Data: []byte{1, 2, 3}}
		switch kind {
		case "eth-accesslist":
			args.Type = 1
			args.Access = ethtypes.AccessList{{Address: b.Eth, StorageKeys: []common.Hash{{1}}}}
		case "eth-dynamicfee":
			args.Type = 2
			args.Access = ethtypes.AccessList{{Address: a.Eth}}
		}
		return n.EthTx(a, args), nil
	case "cosmos-direct":
		return n.CosmosTx(vn.CosmosArgs{Msgs: msgs, Gas: gas, Fee: fee, ChainID: chainID, Memo: "m"}, a), nil
	case "cosmos-amino":
		return n.CosmosTx(vn.CosmosArgs{Msgs: msgs, Gas: gas, Fee: fee, ChainID: chainID, Mode: signing.SignMode_SIGN_MODE_LEGACY_AMINO_JSON}, a), nil
	case "eip712-web3ext":
		return n.EIP712TxChain(a, msgs, gas, fee, true, true, chainID)
	case "eip712-pubkey-legacytyped":
		return n.EIP712TxChain(a, msgs, gas, fee, false, true, chainID)
	case "eip712-pubkey":
		return n.EIP712TxChain(a, msgs, gas, fee, false, false, chainID)
	}
	panic(kind)
}

func c03Base(r *report.R, id, kind string) {
	rng := r.Rand(id)
	n := c03Chain(r, rng)
	a, b, c := n.Accounts[0], n.Accounts[1], n.Accounts[2]
	n.BeginBlock(vn.BlockOpts{})
	base, err := c03BuildBase(n, kind, a, b, rng, "", nil)
	if err != nil {
		r.Note("cannot build %s: %v", kind, err)
		n.EndBlock()
		n.Commit()
		return
	}
	eth := kind[:3] == "eth"
	muts := c03Mutations(n, kind, eth, b, c)
	type rec struct {
		path     string
		accepted bool
	}
	var pending []rec
	deliverUnchanged := func(tx []byte) (uint32, string, bool, []vn.Change) {
		before := n.Snapshot(n.Ctx())
		res := n.Deliver(tx)
		after := n.Snapshot(n.Ctx())
		d := vn.Diff(before, after)
		return res.Code, res.Log, len(d) == 0, d
	}
	alive := true
	for _, m := range muts {
		if !alive {
			break
		}
		var raw txtypes.TxRaw
		vn.Must(raw.Unmarshal(base))
		if !m.f(&raw, rng) {
			continue
		}
		mut, _ := raw.Marshal()
		if string(mut) == string(base) {
			continue // re-encoding yielded identical bytes: not a mutation
		}
		r.Eval(1)
		code, log, unchanged, diff := deliverUnchanged(mut)
		switch {
		case code != 0 && unchanged:
			pending = append(pending, rec{m.path, false})
		case code != 0 && !unchanged:
			// rejected but left a trace (fee charged): the tx passed signature verification
			r.Violation(id, fmt.Sprintf("%s|%s|mutant-passed-the-ante-handler(failed later)", kind, m.path), fmt.Sprintf("mutated %s: code=%d but state changed: %v log=%.160s", m.path, code, vn.DiffStrings(diff, 6), log), nil)
			alive = false
		default:
			// accepted: compare with the effect of the unmutated transaction on a twin
			tw := n.Twin()
			// the twin has also executed the mutant (it is in the log): rebuild without it
			tw = twinWithoutLast(n)
			tb := tw.Snapshot(tw.Ctx())
			tres := tw.Deliver(base)
			td := vn.Diff(tb, tw.Snapshot(tw.Ctx()))
			same := tres.Code == 0 && diffEqual(diff, td)
			if same {
				r.Count("envelope_malleability(accepted, identical effect)/"+kind+"|"+m.path, 1)
				r.Nontriv(kind + "|" + m.path + "|accepted-identical-effect")
				// the signed transaction has in effect been executed: sign a new base for the
				// next sequence number and go on with the remaining mutations
				nb, err := c03BuildBase(n, kind, a, b, rng, "", nil)
				if err == nil {
					base = nb
					continue
				}
			} else {
				r.Violation(id, fmt.Sprintf("%s|%s|accepted-with-different-effect", kind, m.path), fmt.Sprintf("mutated %s accepted; effect differs from the signed transaction's: mutant %v vs original(code %d) %v", m.path, vn.DiffStrings(diff, 8), tres.Code, vn.DiffStrings(td, 8)), nil)
			}
			alive = false // the sender's sequence is consumed
		}
	}
	if !alive {
		n.EndBlock()
		n.Commit()
		return
	}
	// control: the unmutated transaction is valid all along
	code, log, unchanged, _ := deliverUnchanged(base)
	if code != 0 || unchanged {
		r.Note("base %s did not succeed: %.140s", kind, log)
		n.EndBlock()
		n.Commit()
		return
	}
	for _, p := range pending {
		r.Nontriv(kind + "|" + p.path + "|rejected")
		r.Count("mutants_rejected_without_trace", 1)
	}
	r.Sample(kind, map[string]any{"kind": kind, "mutations": len(pending)})
	// replay: same block, next block, after unrelated traffic
	for step, when := range []string{"same-block", "next-block", "after-traffic"} {
		if step == 1 {
			n.EndBlock()
			n.Commit()
			n.BeginBlock(vn.BlockOpts{})
		}
		if step == 2 {
			x := n.Accounts[3]
			n.Deliver(n.CosmosTx(vn.CosmosArgs{Msgs: []sdk.Msg{banktypes.NewMsgSend(x.Addr, b.Addr, vn.Coins(9))}, Gas: 200000, Fee: vn.Coins(200000 * 2000)}, x))
			n.EndBlock()
			n.Commit()
			n.BeginBlock(vn.BlockOpts{})
		}
		r.Eval(1)
		code, log, unchanged, diff := deliverUnchanged(base)
		if code == 0 || !unchanged {
			r.Violation(id, fmt.Sprintf("%s|replay|%s|accepted-or-left-a-trace", kind, when), fmt.Sprintf("replayed tx: code=%d diff=%v log=%.120s", code, vn.DiffStrings(diff, 6), log), nil)
			break
		}
		r.Nontriv(kind + "|replay|" + when)
		r.Count("replays_rejected", 1)
	}
	// other chain ids and a foreign key, on the next sequence number
	for _, alt := range []struct{ name, cid string }{{"testnet-id", "haqq_54211-3"}, {"same-epoch-other-number", "haqq_11236-1"}, {"other-suffix", "haqq_11235-2"}} {
		ep, _ := haqqtypes.ParseChainID(alt.cid)
		if eth && alt.name == "other-suffix" {
			continue // same EIP-155 id: not another chain for an Ethereum signature
		}
		tx, err := c03BuildBase(n, kind, a, b, rng, alt.cid, ep)
		if err != nil {
			continue
		}
		r.Eval(1)
		code, log, unchanged, diff := deliverUnchanged(tx)
		if code == 0 || !unchanged {
			r.Violation(id, fmt.Sprintf("%s|foreign-chain-id|%s|accepted", kind, alt.name), fmt.Sprintf("signature made for %s: code=%d diff=%v log=%.120s", alt.cid, code, vn.DiffStrings(diff, 6), log), nil)
			break
		}
		r.Nontriv(kind + "|foreign-chain-id|" + alt.name)
		r.Count("foreign_chain_rejected", 1)
	}
	if kind == "eth-legacy" { // unprotected (pre-EIP-155) signature
		to := b.Eth
		inner := &ethtypes.LegacyTx{Nonce: n.EthNonce(a.Eth), To: &to, Value: big.NewInt(5), Gas: 50000, GasPrice: big.NewInt(3000)}
		key, _ := a.Priv.ToECDSA()
		utx, _ := ethtypes.SignNewTx(key, ethtypes.HomesteadSigner{}, inner)
		r.Eval(1)
		code, log, unchanged, _ := deliverUnchanged(n.WrapEth(utx))
		if code == 0 || !unchanged {
			r.Violation(id, "eth-legacy|unprotected-signature|accepted", fmt.Sprintf("code=%d log=%.120s", code, log), nil)
		} else {
			r.Nontriv("eth-legacy|unprotected-signature|rejected")
		}
	}
	// wrong key: c signs a transaction that claims to come from a
	if !eth {
		forged := c03Forge(n, kind, a, c, b)
		if forged != nil {
			r.Eval(1)
			code, log, unchanged, diff := deliverUnchanged(forged)
			if code == 0 || !unchanged {
				r.Violation(id, kind+"|wrong-key|accepted", fmt.Sprintf("code=%d diff=%v log=%.120s", code, vn.DiffStrings(diff, 6), log), nil)
			} else {
				r.Nontriv(kind + "|wrong-key|rejected")
				r.Count("wrong_key_rejected", 1)
			}
		}
	}
	n.EndBlock()
	n.Commit()
}

// c03Forge: message from a, signed by c's key, once announcing c's pubkey and once a's.
func c03Forge(n *vn.Node, kind string, a, c, b vn.Account) []byte {
	if kind != "cosmos-direct" && kind != "cosmos-amino" {
		return nil
	}
	mode := signing.SignMode_SIGN_MODE_DIRECT
	if kind == "cosmos-amino" {
		mode = signing.SignMode_SIGN_MODE_LEGACY_AMINO_JSON
	}
	seq, num := n.Seq(a.Addr), n.AccNum(a.Addr)
	args := vn.CosmosArgs{Msgs: []sdk.Msg{banktypes.NewMsgSend(a.Addr, b.Addr, vn.Coins(77))}, Gas: 300000, Fee: vn.Coins(300000 * 2000), Mode: mode, Seq: &seq, AccNum: &num}
	bld := n.CosmosBuilder(args)
	// sign with c's key but a's account number and sequence
	tx := n.SignCosmos(bld, args, c)
	return n.Encode(tx)
}

func twinWithoutLast(n *vn.Node) *vn.Node {
	last := &n.Log[len(n.Log)-1]
	saved := last.Txs
	last.Txs = saved[:len(saved)-1]
	t := n.Twin()
	last.Txs = saved
	return t
}

func diffEqual(a, b []vn.Change) bool {
	if len(a) != len(b) {
		return false
	}
	for i := range a {
		if a[i].Store != b[i].Store || string(a[i].Key) != string(b[i].Key) || string(a[i].New) != string(b[i].New) {
			return false
		}
	}
	return true
}

// ---- mutations ----------------------------------------------------------------

func mutBody(f func(b *txtypes.TxBody, rng *rand.Rand) bool) func(*txtypes.TxRaw, *rand.Rand) bool {
	return func(raw *txtypes.TxRaw, rng *rand.Rand) bool {
		var body txtypes.TxBody
		if body.Unmarshal(raw.BodyBytes) != nil {
			return false
		}
		if !f(&body, rng) {
			return false
		}
		bz, err := body.Marshal()
		if err != nil {
			return false
		}
		raw.BodyBytes = bz
		return true
	}
}

func mutAuth(f func(a *txtypes.AuthInfo, rng *rand.Rand) bool) func(*txtypes.TxRaw, *rand.Rand) bool {
	return func(raw *txtypes.TxRaw, rng *rand.Rand) bool {
		var ai txtypes.AuthInfo
		if ai.Unmarshal(raw.AuthInfoBytes) != nil {
			return false
		}
		if !f(&ai, rng) {
			return false
		}
		bz, err := ai.Marshal()
		if err != nil {
			return false
		}
		raw.AuthInfoBytes = bz
		return true
	}
}

// mutEthData mutates the inner Ethereum tx data of message 0 and keeps the envelope
// consistent (hash, fee, gas) so that only the signature can object.
func mutEthData(n *vn.Node, fixEnvelope bool, f func(tx *ethMut) bool) func(*txtypes.TxRaw, *rand.Rand) bool {
	return func(raw *txtypes.TxRaw, rng *rand.Rand) bool {
		var body txtypes.TxBody
		if body.Unmarshal(raw.BodyBytes) != nil || len(body.Messages) == 0 {
			return false
		}
		var msg evmtypes.MsgEthereumTx
		if msg.Unmarshal(body.Messages[0].Value) != nil {
			return false
		}
		vn.Must(msg.UnpackInterfaces(n.Enc.Registry))
		old := msg.AsTransaction()
		em := ethMutFrom(old)
		if !f(em) {
			return false
		}
		ntx := em.build()
		if ntx == nil {
			return false
		}
		nm := &evmtypes.MsgEthereumTx{}
		if nm.FromEthereumTx(ntx) != nil {
			return false
		}
		if !fixEnvelope {
			nm.Hash = msg.Hash
		}
		bz, _ := nm.Marshal()
		body.Messages[0].Value = bz
		raw.BodyBytes, _ = body.Marshal()
		if fixEnvelope {
			var ai txtypes.AuthInfo
			vn.Must(ai.Unmarshal(raw.AuthInfoBytes))
			ai.Fee.GasLimit = ntx.Gas()
			fee := new(big.Int).Mul(ntx.GasPrice(), new(big.Int).SetUint64(ntx.Gas()))
			ai.Fee.Amount = sdk.Coins{}
			if fee.Sign() > 0 {
				ai.Fee.Amount = sdk.NewCoins(sdk.NewCoin(vn.Denom, sdkmath.NewIntFromBigInt(fee)))
			}
			raw.AuthInfoBytes, _ = ai.Marshal()
		}
		return true
	}
}

type ethMut struct {
	typ                      uint8
	chainID                  *big.Int
	nonce, gas               uint64
	gasPrice, feeCap, tipCap *big.Int
	to                       *common.Address
	value                    *big.Int
	data                     []byte
	al                       ethtypes.AccessList
	v, r, s                  *big.Int
}

func ethMutFrom(tx *ethtypes.Transaction) *ethMut {
	v, r, s := tx.RawSignatureValues()
	m := &ethMut{typ: tx.Type(), chainID: tx.ChainId(), nonce: tx.Nonce(), gas: tx.Gas(), gasPrice: tx.GasPrice(), feeCap: tx.GasFeeCap(), tipCap: tx.GasTipCap(),
		to: tx.To(), value: tx.Value(), data: append([]byte{}, tx.Data()...), al: tx.AccessList(), v: new(big.Int).Set(v), r: new(big.Int).Set(r), s: new(big.Int).Set(s)}
	return m
}

func (m *ethMut) build() *ethtypes.Transaction {
	switch m.typ {
	case 0:
		return ethtypes.NewTx(&ethtypes.LegacyTx{Nonce: m.nonce, GasPrice: m.gasPrice, Gas: m.gas, To: m.to, Value: m.value, Data: m.data, V: m.v, R: m.r, S: m.s})
	case 1:
		return ethtypes.NewTx(&ethtypes.AccessListTx{ChainID: m.chainID, Nonce: m.nonce, GasPrice: m.gasPrice, Gas: m.gas, To: m.to, Value: m.value, Data: m.data, AccessList: m.al, V: m.v, R: m.r, S: m.s})
	default:
		return ethtypes.NewTx(&ethtypes.DynamicFeeTx{ChainID: m.chainID, Nonce: m.nonce, GasFeeCap: m.feeCap, GasTipCap: m.tipCap, Gas: m.gas, To: m.to, Value: m.value, Data: m.data, AccessList: m.al, V: m.v, R: m.r, S: m.s})
	}
}

var secp256k1N, _ = new(big.Int).SetString("fffffffffffffffffffffffffffffffebaaedce6af48a03bbfd25e8cd0364141", 16)

func c03Mutations(n *vn.Node, kind string, eth bool, other, third vn.Account) []c03Mut {
	var ms []c03Mut
	add := func(path string, f func(*txtypes.TxRaw, *rand.Rand) bool) { ms = append(ms, c03Mut{path, f}) }
	anyOf := func(m sdk.Msg) *codectypes.Any { a, _ := codectypes.NewAnyWithValue(m); return a }
	dyn := func(p int64) *codectypes.Any {
		a, _ := codectypes.NewAnyWithValue(&haqqtypes.ExtensionOptionDynamicFeeTx{MaxPriorityPrice: sdkmath.NewInt(p)})
		return a
	}
	if eth {
		e := func(path string, f func(*ethMut) bool) {
			add("eth."+path, mutEthData(n, true, f))
		}
		e("nonce", func(m *ethMut) bool { m.nonce++; return true })
		e("gasPrice/feeCap", func(m *ethMut) bool {
			if m.typ == 2 {
				m.feeCap = new(big.Int).Add(m.feeCap, big.NewInt(1))
			} else {
				m.gasPrice = new(big.Int).Add(m.gasPrice, big.NewInt(1))
			}
			return true
		})
		e("gasTipCap", func(m *ethMut) bool {
			if m.typ != 2 {
				return false
			}
			m.tipCap = new(big.Int).Sub(m.tipCap, big.NewInt(1))
			return true
		})
		e("gas", func(m *ethMut) bool { m.gas += 1000; return true })
		e("to", func(m *ethMut) bool { t := third.Eth; m.to = &t; return true })
		e("to=nil(create)", func(m *ethMut) bool { m.to = nil; return true })
		e("value", func(m *ethMut) bool { m.value = new(big.Int).Add(m.value, big.NewInt(1)); return true })
		e("data", func(m *ethMut) bool { m.data = append(m.data, 0); return true })
		e("data=empty", func(m *ethMut) bool { m.data = nil; return true })
		e("accessList+entry", func(m *ethMut) bool {
			if m.typ == 0 {
				return false
			}
			m.al = append(append(ethtypes.AccessList{}, m.al...), ethtypes.AccessTuple{Address: third.Eth})
			return true
		})
		e("accessList=empty", func(m *ethMut) bool {
			if m.typ == 0 || len(m.al) == 0 {
				return false
			}
			m.al = nil
			return true
		})
		e("chainId", func(m *ethMut) bool {
			if m.typ == 0 {
				return false
			}
			m.chainID = big.NewInt(54211)
			return true
		})
		e("v", func(m *ethMut) bool { m.v = new(big.Int).Xor(m.v, big.NewInt(1)); return true })
		e("v(other-chain-encoding)", func(m *ethMut) bool {
			if m.typ != 0 {
				return false
			}
			m.v = new(big.Int).Add(m.v, big.NewInt(2)) // chain id + 1 under EIP-155
			return true
		})
		e("r", func(m *ethMut) bool { m.r = new(big.Int).Add(m.r, big.NewInt(1)); return true })
		e("s", func(m *ethMut) bool { m.s = new(big.Int).Add(m.s, big.NewInt(1)); return true })
		e("s=n-s,v^1(malleable-twin)", func(m *ethMut) bool {
			m.s = new(big.Int).Sub(secp256k1N, m.s)
			m.v = new(big.Int).Xor(m.v, big.NewInt(1))
			return true
		})
		e("type(legacy->accesslist)", func(m *ethMut) bool {
			if m.typ != 0 {
				return false
			}
			m.typ = 1
			m.chainID = big.NewInt(11235)
			return true
		})
		add("eth.hash-field-stale", mutEthData(n, false, func(m *ethMut) bool { m.value = new(big.Int).Add(m.value, big.NewInt(1)); return true }))
		add("envelope.msg.From", mutBody(func(b *txtypes.TxBody, _ *rand.Rand) bool {
			var msg evmtypes.MsgEthereumTx
			vn.Must(msg.Unmarshal(b.Messages[0].Value))
			msg.From = third.Eth.Hex()
			b.Messages[0].Value, _ = msg.Marshal()
			return true
		}))
		add("envelope.msg.Hash", mutBody(func(b *txtypes.TxBody, _ *rand.Rand) bool {
			var msg evmtypes.MsgEthereumTx
			vn.Must(msg.Unmarshal(b.Messages[0].Value))
			msg.Hash = common.Hash{1}.Hex()
			b.Messages[0].Value, _ = msg.Marshal()
			return true
		}))
		add("envelope.msg.Size", mutBody(func(b *txtypes.TxBody, _ *rand.Rand) bool {
			var msg evmtypes.MsgEthereumTx
			vn.Must(msg.Unmarshal(b.Messages[0].Value))
			msg.Size_ = 7
			b.Messages[0].Value, _ = msg.Marshal()
			return true
		}))
		add("envelope.body.second-message(bank send from sender)", mutBody(func(b *txtypes.TxBody, _ *rand.Rand) bool {
			b.Messages = append(b.Messages, anyOf(banktypes.NewMsgSend(n.Accounts[0].Addr, third.Addr, vn.Coins(1))))
			return true
		}))
		add("envelope.body.duplicate-eth-message", mutBody(func(b *txtypes.TxBody, _ *rand.Rand) bool {
			b.Messages = append(b.Messages, b.Messages[0])
			return true
		}))
	} else {
		add("body.msg.amount", mutBody(func(b *txtypes.TxBody, _ *rand.Rand) bool {
			var m banktypes.MsgSend
			vn.Must(m.Unmarshal(b.Messages[0].Value))
			m.Amount = m.Amount.Add(sdk.NewInt64Coin(vn.Denom, 1))
			b.Messages[0].Value, _ = m.Marshal()
			return true
		}))
		add("body.msg.to_address", mutBody(func(b *txtypes.TxBody, _ *rand.Rand) bool {
			var m banktypes.MsgSend
			vn.Must(m.Unmarshal(b.Messages[0].Value))
			m.ToAddress = third.Addr.String()
			b.Messages[0].Value, _ = m.Marshal()
			return true
		}))
		add("body.msg.from_address", mutBody(func(b *txtypes.TxBody, _ *rand.Rand) bool {
			var m banktypes.MsgSend
			vn.Must(m.Unmarshal(b.Messages[0].Value))
			m.FromAddress = other.Addr.String()
			b.Messages[0].Value, _ = m.Marshal()
			return true
		}))
		add("body.messages+1", mutBody(func(b *txtypes.TxBody, _ *rand.Rand) bool {
			b.Messages = append(b.Messages, anyOf(banktypes.NewMsgSend(n.Accounts[0].Addr, third.Addr, vn.Coins(1))))
			return true
		}))
		add("body.messages.duplicate", mutBody(func(b *txtypes.TxBody, _ *rand.Rand) bool {
			b.Messages = append(b.Messages, b.Messages[0])
			return true
		}))
		add("body.memo", mutBody(func(b *txtypes.TxBody, _ *rand.Rand) bool { b.Memo += "x"; return true }))
		add("body.timeout_height", mutBody(func(b *txtypes.TxBody, _ *rand.Rand) bool { b.TimeoutHeight = 1_000_000; return true }))
		add("body.extension_options+dynamic-fee(tip 0)", mutBody(func(b *txtypes.TxBody, _ *rand.Rand) bool {
			if len(b.ExtensionOptions) > 0 {
				return false
			}
			b.ExtensionOptions = append(b.ExtensionOptions, dyn(0))
			return true
		}))
		add("body.non_critical_extension_options+1", mutBody(func(b *txtypes.TxBody, _ *rand.Rand) bool {
			b.NonCriticalExtensionOptions = append(b.NonCriticalExtensionOptions, dyn(1))
			return true
		}))
		add("body.extension_options.web3.TypedDataChainID", mutBody(func(b *txtypes.TxBody, _ *rand.Rand) bool {
			if len(b.ExtensionOptions) != 1 {
				return false
			}
			var w haqqtypes.ExtensionOptionsWeb3Tx
			if w.Unmarshal(b.ExtensionOptions[0].Value) != nil || len(w.FeePayerSig) == 0 {
				return false
			}
			w.TypedDataChainID = 54211
			b.ExtensionOptions[0].Value, _ = w.Marshal()
			return true
		}))
		add("body.extension_options.web3.FeePayer", mutBody(func(b *txtypes.TxBody, _ *rand.Rand) bool {
			if len(b.ExtensionOptions) != 1 {
				return false
			}
			var w haqqtypes.ExtensionOptionsWeb3Tx
			if w.Unmarshal(b.ExtensionOptions[0].Value) != nil || len(w.FeePayerSig) == 0 {
				return false
			}
			w.FeePayer = third.Addr.String()
			b.ExtensionOptions[0].Value, _ = w.Marshal()
			return true
		}))
		add("body.extension_options.web3.FeePayerSig", mutBody(func(b *txtypes.TxBody, _ *rand.Rand) bool {
			if len(b.ExtensionOptions) != 1 {
				return false
			}
			var w haqqtypes.ExtensionOptionsWeb3Tx
			if w.Unmarshal(b.ExtensionOptions[0].Value) != nil || len(w.FeePayerSig) == 0 {
				return false
			}
			w.FeePayerSig[10] ^= 1
			b.ExtensionOptions[0].Value, _ = w.Marshal()
			return true
		}))
	}
	// auth info and signatures: all kinds
	add("auth_info.fee.amount", mutAuth(func(a *txtypes.AuthInfo, _ *rand.Rand) bool {
		if a.Fee == nil {
			return false
		}
		a.Fee.Amount = a.Fee.Amount.Add(sdk.NewInt64Coin(vn.Denom, 1))
		return true
	}))
	add("auth_info.fee.amount-lower", mutAuth(func(a *txtypes.AuthInfo, _ *rand.Rand) bool {
		if a.Fee == nil || a.Fee.Amount.IsZero() {
			return false
		}
		a.Fee.Amount = a.Fee.Amount.Sub(sdk.NewInt64Coin(vn.Denom, 1))
		return true
	}))
	add("auth_info.fee.gas_limit", mutAuth(func(a *txtypes.AuthInfo, _ *rand.Rand) bool { a.Fee.GasLimit += 1; return true }))
	add("auth_info.fee.payer", mutAuth(func(a *txtypes.AuthInfo, _ *rand.Rand) bool { a.Fee.Payer = third.Addr.String(); return true }))
	add("auth_info.fee.granter", mutAuth(func(a *txtypes.AuthInfo, _ *rand.Rand) bool { a.Fee.Granter = third.Addr.String(); return true }))
	add("auth_info.tip", mutAuth(func(a *txtypes.AuthInfo, _ *rand.Rand) bool {
		a.Tip = &txtypes.Tip{Amount: vn.Coins(1), Tipper: third.Addr.String()}
		return true
	}))
	add("auth_info.signer_infos[0].sequence", mutAuth(func(a *txtypes.AuthInfo, _ *rand.Rand) bool {
		if len(a.SignerInfos) == 0 {
			return false
		}
		a.SignerInfos[0].Sequence++
		return true
	}))
	add("auth_info.signer_infos[0].mode", mutAuth(func(a *txtypes.AuthInfo, _ *rand.Rand) bool {
		if len(a.SignerInfos) == 0 {
			return false
		}
		s, ok := a.SignerInfos[0].ModeInfo.Sum.(*txtypes.ModeInfo_Single_)
		if !ok {
			return false
		}
		if s.Single.Mode == signing.SignMode_SIGN_MODE_DIRECT {
			s.Single.Mode = signing.SignMode_SIGN_MODE_LEGACY_AMINO_JSON
		} else {
			s.Single.Mode = signing.SignMode_SIGN_MODE_DIRECT
		}
		return true
	}))
	add("auth_info.signer_infos[0].public_key", mutAuth(func(a *txtypes.AuthInfo, _ *rand.Rand) bool {
		if len(a.SignerInfos) == 0 {
			return false
		}
		pk, _ := codectypes.NewAnyWithValue(third.Priv.PubKey())
		a.SignerInfos[0].PublicKey = pk
		return true
	}))
	add("auth_info.signer_infos+1", mutAuth(func(a *txtypes.AuthInfo, _ *rand.Rand) bool {
		pk, _ := codectypes.NewAnyWithValue(third.Priv.PubKey())
		a.SignerInfos = append(a.SignerInfos, &txtypes.SignerInfo{PublicKey: pk, ModeInfo: &txtypes.ModeInfo{Sum: &txtypes.ModeInfo_Single_{Single: &txtypes.ModeInfo_Single{Mode: signing.SignMode_SIGN_MODE_DIRECT}}}})
		return true
	}))
	add("signatures[0].bitflip", func(raw *txtypes.TxRaw, rng *rand.Rand) bool {
		if len(raw.Signatures) == 0 || len(raw.Signatures[0]) == 0 {
			return false
		}
		s := append([]byte{}, raw.Signatures[0]...)
		s[rng.Intn(len(s))] ^= 1 << uint(rng.Intn(8))
		raw.Signatures[0] = s
		return true
	})
	add("signatures[0].truncate", func(raw *txtypes.TxRaw, _ *rand.Rand) bool {
		if len(raw.Signatures) == 0 || len(raw.Signatures[0]) < 2 {
			return false
		}
		raw.Signatures[0] = raw.Signatures[0][:len(raw.Signatures[0])-1]
		return true
	})
	add("signatures[0].empty", func(raw *txtypes.TxRaw, _ *rand.Rand) bool {
		if len(raw.Signatures) == 0 || len(raw.Signatures[0]) == 0 {
			return false
		}
		raw.Signatures[0] = nil
		return true
	})
	add("signatures[0].s=n-s", func(raw *txtypes.TxRaw, _ *rand.Rand) bool {
		if len(raw.Signatures) == 0 || len(raw.Signatures[0]) < 64 {
			return false
		}
		s := append([]byte{}, raw.Signatures[0]...)
		ns := new(big.Int).Sub(secp256k1N, new(big.Int).SetBytes(s[32:64]))
		copy(s[32:64], common.LeftPadBytes(ns.Bytes(), 32))
		if len(s) == 65 {
			s[64] ^= 1
		}
		raw.Signatures[0] = s
		return true
	})
	add("signatures+1", func(raw *txtypes.TxRaw, _ *rand.Rand) bool {
		raw.Signatures = append(raw.Signatures, make([]byte, 65))
		return true
	})
	sort.SliceStable(ms, func(i, j int) bool { return false })
	return ms
}

// ---- nonce automaton ------------------------------------------------------------

func c03Nonce(r *report.R, id string) {
	rng := r.Rand(id)
	n := c03Chain(r, rng)
	a, b := n.Accounts[0], n.Accounts[1]
	n.BeginBlock(vn.BlockOpts{})
	cur := n.EthNonce(a.Eth)
	var trace []string
	var accepted [][]byte
	acctState := "plain"
	steps := 6 + rng.Intn(10)
	for s := 0; s < steps; s++ {
		if rng.Intn(5) == 0 {
			n.EndBlock()
			n.Commit()
			n.BeginBlock(vn.BlockOpts{})
		}
		r.Eval(1)
		// every transaction executed so far stays unrepeatable, whatever happened to the account since
		if len(accepted) > 0 && rng.Intn(2) == 0 {
			old := accepted[rng.Intn(len(accepted))]
			before := n.Snapshot(n.Ctx())
			res := n.Deliver(old)
			d := vn.Diff(before, n.Snapshot(n.Ctx()))
			if res.Code == 0 || len(d) != 0 {
				r.Violation(id, "replay-of-executed-tx|"+acctState+"|accepted-or-left-a-trace", fmt.Sprintf("an already executed transaction was accepted again: code=%d diff=%v", res.Code, vn.DiffStrings(d, 6)), trace)
				break
			}
			r.Count("old_tx_replays_rejected", 1)
			r.Nontriv("replay-of-executed-tx|" + acctState)
		}
		// a third party turns the account into a vesting account (no consent needed)
		if acctState == "plain" && cur > 0 && rng.Intn(4) == 0 {
			x := n.Accounts[3]
			lock := sdkvesting.Periods{{Length: 1000, Amount: vn.Coins(5)}}
			res := n.Deliver(n.CosmosTx(vn.CosmosArgs{Msgs: []sdk.Msg{vestingtypes.NewMsgConvertIntoVestingAccount(x.Addr, a.Addr, n.Time.UTC(), lock, lock, false, false, nil)}, Gas: 500000, Fee: vn.Coins(500000 * 2000)}, x))
			trace = append(trace, fmt.Sprintf("third party converts the account into a vesting account: code=%d", res.Code))
			if res.Code == 0 {
				acctState = "converted-into-vesting"
				if got := n.Seq(a.Addr); got != cur {
					r.Violation(id, "sequence-changed-by-account-conversion", fmt.Sprintf("sequence %d became %d when the account was converted into a vesting account", cur, got), trace)
					break
				}
			}
		}
		// once everything has vested the holder turns the account back into an ordinary one
		if acctState == "converted-into-vesting" && rng.Intn(3) == 0 {
			n.EndBlock()
			n.Commit()
			n.BeginBlock(vn.BlockOpts{Dt: 2000 * time.Second})
			sq := cur
			tx := n.CosmosTx(vn.CosmosArgs{Msgs: []sdk.Msg{vestingtypes.NewMsgConvertVestingAccount(a.Addr)}, Gas: 500000, Fee: vn.Coins(500000 * 2000), Seq: &sq}, a)
			res := n.Deliver(tx)
			got := n.Seq(a.Addr)
			trace = append(trace, fmt.Sprintf("the holder converts the vesting account back: code=%d seq %d->%d", res.Code, cur, got))
			if res.Code == 0 {
				acctState = "converted-back-from-vesting"
				accepted = append(accepted, tx)
				if got != cur+1 {
					r.Violation(id, "sequence-changed-by-account-conversion|back", fmt.Sprintf("sequence %d became %d (not %d) when the vesting account was converted back", cur, got, cur+1), trace)
					break
				}
				r.Nontriv("account-conversion|back-from-vesting|sequence-kept")
				r.Count("accounts_converted_back_from_vesting", 1)
			}
			cur = got
		}
		eth := rng.Intn(3) > 0
		var nonces []uint64
		offs := []int64{0, 0, 0, 1, 2, -1, 5}
		k := 1
		if eth && rng.Intn(4) == 0 {
			k = 2 + rng.Intn(2) // several Ethereum messages in one transaction
		}
		first := int64(cur) + offs[rng.Intn(len(offs))]
		if first < 0 {
			first = 0
		}
		cls := "single"
		for i := 0; i < k; i++ {
			nn := uint64(first) + uint64(i)
			if k > 1 && i > 0 && rng.Intn(4) == 0 {
				nn = uint64(first) // duplicate inside the tx
				cls = "multi-dup"
			}
			nonces = append(nonces, nn)
		}
		if k > 1 && cls == "single" {
			cls = "multi"
		}
		var tx []byte
		var parts [][]byte // the Ethereum messages of a batch, each wrapped on its own
		if eth {
			var txs []*ethtypes.Transaction
			for _, nn := range nonces {
				to := b.Eth
				args := vn.EthArgs{Type: rng.Intn(2), Nonce: nn, To: &to, Value: big.NewInt(1), Gas: 30000, GasPrice: big.NewInt(3000)}
				if rng.Intn(3) == 0 { // contract creation (init code: STOP)
					args.To, args.Gas, args.Data = nil, 80000, []byte{0}
					cls += "+create"
				}
				t := n.SignEth(a, args)
				txs = append(txs, t)
				parts = append(parts, n.WrapEth(t))
			}
			tx = n.WrapEth(txs...)
		} else {
			sq := nonces[0]
			tx = n.CosmosTx(vn.CosmosArgs{Msgs: []sdk.Msg{banktypes.NewMsgSend(a.Addr, b.Addr, vn.Coins(1))}, Gas: 200000, Fee: vn.Coins(200000 * 2000), Seq: &sq}, a)
		}
		// reference automaton: accepted iff the nonces are cur, cur+1, ... in order
		wantOK := true
		for i, nn := range nonces {
			if nn != cur+uint64(i) {
				wantOK = false
			}
		}
		before := n.Snapshot(n.Ctx())
		res := n.Deliver(tx)
		after := n.Snapshot(n.Ctx())
		got := n.Seq(a.Addr)
		trace = append(trace, fmt.Sprintf("cur=%d nonces=%v eth=%v code=%d seq->%d", cur, nonces, eth, res.Code, got))
		route := "cosmos"
		if eth {
			route = "eth"
		}
		if wantOK {
			if res.Code != 0 {
				// a correct-nonce tx may still fail for other reasons; it must not be a nonce error
				r.Note("expected acceptance: %.100s", res.Log)
			} else if got != cur+uint64(len(nonces)) {
				r.Violation(id, fmt.Sprintf("nonce|%s|%s|sequence-not-advanced-by-number-of-executed-messages", route, cls), fmt.Sprintf("sequence %d, executed nonces %v, sequence afterwards %d", cur, nonces, got), trace)
				break
			} else {
				r.Nontriv(fmt.Sprintf("nonce|%s|%s|accepted", route, cls))
				r.Count("nonce_accepted", 1)
				accepted = append(accepted, tx)
				accepted = append(accepted, parts...)
			}
			cur = got
		} else {
			if res.Code == 0 || got != cur || len(vn.Diff(before, after)) != 0 {
				r.Violation(id, fmt.Sprintf("nonce|%s|%s|out-of-order-accepted-or-left-a-trace", route, cls), fmt.Sprintf("sequence %d, tx nonces %v: code=%d sequence after=%d diff=%v", cur, nonces, res.Code, got, vn.DiffStrings(vn.Diff(before, after), 5)), trace)
				break
			}
			r.Nontriv(fmt.Sprintf("nonce|%s|%s|rejected", route, cls))
			r.Count("nonce_rejected", 1)
		}
	}
	n.EndBlock()
	n.Commit()
}
