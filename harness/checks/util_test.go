//go:build verif

package checks

import (
	"math/big"

	banktypes "github.com/cosmos/cosmos-sdk/x/bank/types"
	"github.com/ethereum/go-ethereum/accounts/abi"

	"github.com/haqq-network/haqq/contracts"
)

type bigInt = big.Int

type bankMsgSend = banktypes.MsgSend

func erc20ABI() abi.ABI { return contracts.ERC20MinterBurnerDecimalsContract.ABI }
