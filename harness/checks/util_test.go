//go:build verif

package checks

import (
	"math/big"

	authtypes "github.com/cosmos/cosmos-sdk/x/auth/types"
	banktypes "github.com/cosmos/cosmos-sdk/x/bank/types"
	slashingtypes "github.com/cosmos/cosmos-sdk/x/slashing/types"
	"github.com/ethereum/go-ethereum/accounts/abi"
	ethtypes "github.com/ethereum/go-ethereum/core/types"

	"github.com/haqq-network/haqq/contracts"
	distpc "github.com/haqq-network/haqq/precompiles/distribution"
	stakingpc "github.com/haqq-network/haqq/precompiles/staking"
	evmtypes "github.com/haqq-network/haqq/x/evm/types"

	"verif/harness/vn"
)

type bigInt = big.Int

type bankMsgSend = banktypes.MsgSend

func erc20ABI() abi.ABI { return contracts.ERC20MinterBurnerDecimalsContract.ABI }

type slashingMsgUnjail = slashingtypes.MsgUnjail

func mustEthMsg(tx *ethtypes.Transaction) *evmtypes.MsgEthereumTx {
	m := &evmtypes.MsgEthereumTx{}
	vn.Must(m.FromEthereumTx(tx))
	return m
}

// histABIs returns the staking and distribution precompile ABIs of a node.
func histABIs(n *vn.Node) (abi.ABI, abi.ABI) {
	st, err := stakingpc.LoadABI()
	vn.Must(err)
	pcs := n.App.EvmKeeper.Precompiles(addrDist)
	return st, pcs[addrDist].(*distpc.Precompile).ABI
}

type authAccountI = authtypes.AccountI
