//go:build verif

package checks

import (
	"math/big"
)

type bigInt = big.Int
