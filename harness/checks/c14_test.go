//go:build verif

package checks

import (
	"fmt"
	"testing"
	"time"

	sdkmath "cosmossdk.io/math"
	abci "github.com/cometbft/cometbft/abci/types"
	"github.com/cosmos/cosmos-sdk/codec"
	sdk "github.com/cosmos/cosmos-sdk/types"
	authtypes "github.com/cosmos/cosmos-sdk/x/auth/types"
	distrtypes "github.com/cosmos/cosmos-sdk/x/distribution/types"
	govtypes "github.com/cosmos/cosmos-sdk/x/gov/types"
	govv1 "github.com/cosmos/cosmos-sdk/x/gov/types/v1"
	govv1beta1 "github.com/cosmos/cosmos-sdk/x/gov/types/v1beta1"
	stakingtypes "github.com/cosmos/cosmos-sdk/x/staking/types"

	haqqtypes "github.com/haqq-network/haqq/types"
	coinomicstypes "github.com/haqq-network/haqq/x/coinomics/types"

	"verif/harness/report"
	"verif/harness/vn"
)

func TestC14(t *testing.T) {
	r := report.Start("C14")
	defer r.Finish()
	nh := r.Cases(48, 2400)
	for i := 0; i < nh; i++ {
		id := fmt.Sprintf("hist/%d", i)
		if !r.Want(id, i) {
			continue
		}
		c14History(r, id)
	}
}

type c14Obs struct {
	supply                             map[string]sdkmath.Int
	dist, coll, bonded, notBonded, gov map[string]sdkmath.Int
	pool                               sdk.DecCoins
	outstanding                        sdk.DecCoins
	others                             map[string]sdkmath.Int // Σ balances of all other accounts, per denom
}

var c14Denoms = []string{vn.Denom, "uother"}

func c14Observe(n *vn.Node) c14Obs {
	ctx := n.Ctx()
	bal := func(mod string) map[string]sdkmath.Int {
		m := map[string]sdkmath.Int{}
		for _, d := range c14Denoms {
			m[d] = n.App.BankKeeper.GetBalance(ctx, authtypes.NewModuleAddress(mod), d).Amount
		}
		return m
	}
	o := c14Obs{supply: map[string]sdkmath.Int{}, dist: bal(distrtypes.ModuleName), coll: bal(authtypes.FeeCollectorName), bonded: bal(stakingtypes.BondedPoolName), notBonded: bal(stakingtypes.NotBondedPoolName), gov: bal(govtypes.ModuleName)}
	for _, d := range c14Denoms {
		o.supply[d] = n.App.BankKeeper.GetSupply(ctx, d).Amount
	}
	o.others = map[string]sdkmath.Int{}
	for _, d := range c14Denoms {
		o.others[d] = sdkmath.ZeroInt()
	}
	special := map[string]bool{}
	for _, m := range []string{distrtypes.ModuleName, authtypes.FeeCollectorName, stakingtypes.BondedPoolName, stakingtypes.NotBondedPoolName, govtypes.ModuleName} {
		special[authtypes.NewModuleAddress(m).String()] = true
	}
	n.App.BankKeeper.IterateAllBalances(ctx, func(a sdk.AccAddress, c sdk.Coin) bool {
		if cur, ok := o.others[c.Denom]; ok && !special[a.String()] {
			o.others[c.Denom] = cur.Add(c.Amount)
		}
		return false
	})
	o.pool = n.App.DistrKeeper.GetFeePool(ctx).CommunityPool
	n.App.DistrKeeper.IterateValidatorOutstandingRewards(ctx, func(_ sdk.ValAddress, rew distrtypes.ValidatorOutstandingRewards) bool {
		o.outstanding = o.outstanding.Add(rew.Rewards...)
		return false
	})
	return o
}

func c14History(r *report.R, id string) {
	rng := r.Rand(id)
	coin := rng.Intn(2) == 0
	cfg := vn.Config{Seed: uint64(r.Seed)*977 + uint64(rng.Intn(977)), NumVals: 4, NumAccounts: 8}
	_, accs := vn.Keys(cfg)
	cfg.ExtraBalances = map[string]sdk.Coins{}
	for _, a := range accs {
		cfg.ExtraBalances[a.Addr.String()] = sdk.NewCoins(sdk.NewCoin("uother", sdkmath.NewInt(1_000_000_000)))
	}
	cfg.Mutate = func(cdc codec.Codec, gs haqqtypes.GenesisState) {
		gv := govv1.DefaultGenesisState()
		gv.Params.MinDeposit = sdk.NewCoins(sdk.NewCoin(vn.Denom, sdkmath.NewIntWithDecimal(10, 18)))
		dp, vp := 20*time.Second, 20*time.Second
		gv.Params.MaxDepositPeriod, gv.Params.VotingPeriod = &dp, &vp
		gv.Params.BurnVoteQuorum, gv.Params.BurnProposalDepositPrevote, gv.Params.BurnVoteVeto = true, true, true
		gs["gov"] = cdc.MustMarshalJSON(gv)
		if coin {
			p := coinomicstypes.DefaultParams()
			g := coinomicstypes.NewGenesisState(p, sdk.NewCoin(vn.Denom, sdkmath.NewIntWithDecimal(1, 30)))
			gs[coinomicstypes.ModuleName] = cdc.MustMarshalJSON(&g)
		}
	}
	n := vn.New(cfg)
	unit := sdkmath.NewIntWithDecimal(1, 17)
	var proposals []uint64
	var trace []string
	deliver := func(a vn.Account, msgs ...sdk.Msg) bool {
		res := n.Deliver(n.CosmosTx(vn.CosmosArgs{Msgs: msgs, Gas: 2_000_000, Fee: vn.CoinsI(sdkmath.NewInt(2_000_000).MulRaw(1_000_000_000))}, a))
		return res.Code == 0
	}
	nblocks := r.Pick(50, 90)
	absentSince := map[int]int64{}
	for b := 0; b < nblocks; b++ {
		opts := vn.BlockOpts{Dt: time.Duration(rng.Intn(4000)+500) * time.Millisecond}
		var evVal = -1
		if b > 6 && rng.Intn(9) == 0 {
			v := 1 + rng.Intn(3)
			if val, found := n.App.StakingKeeper.GetValidator(n.Ctx(), n.Vals[v].ValAddr); found && !val.IsUnbonded() {
				back := int64(1 + rng.Intn(5))
				opts.Evidence = []abci.Misbehavior{n.DoubleSignEvidence(v, n.Height-back, n.Time.Add(-time.Duration(back)*time.Second))}
				evVal = v
			}
		}
		if rng.Intn(14) == 0 {
			v := 1 + rng.Intn(3)
			if !n.Absent[v] {
				n.Absent[v] = true
				absentSince[v] = n.Height
			}
		}
		for v, since := range absentSince {
			if n.Height-since > 13 {
				delete(n.Absent, v)
				delete(absentSince, v)
			}
		}
		pre := c14Observe(n) // committed state before BeginBlock
		n.BeginBlock(opts)
		post := c14Observe(n)
		r.Eval(1)
		// ---- BeginBlock window ----
		slashedAny := false
		for _, d := range c14Denoms {
			dSup := post.supply[d].Sub(pre.supply[d])
			dDist := post.dist[d].Sub(pre.dist[d])
			dColl := post.coll[d].Sub(pre.coll[d])
			dPools := post.bonded[d].Sub(pre.bonded[d]).Add(post.notBonded[d].Sub(pre.notBonded[d]))
			src := "none"
			if dPools.IsNegative() {
				slashedAny = true
				src = "slash"
				if evVal >= 0 {
					src = "slash-double-sign"
				} else {
					src = "slash-downtime"
				}
			}
			detail := map[string]any{"height": n.Height, "trace": trace, "evidence_against": evVal, "absent": fmt.Sprint(n.Absent)}
			if !dSup.IsZero() {
				r.Violation(id, fmt.Sprintf("begin-block|%s|%s|supply-changed", src, d), fmt.Sprintf("height %d: supply of %s changed by %s in BeginBlock (staking pools %s, distribution account %s)", n.Height, d, dSup, dPools, dDist), detail)
				return
			}
			// rewards paid out inside BeginBlock (slashing a redelegation unbonds at the destination
			// validator, whose hook withdraws the delegator's pending rewards) leave the distribution account
			paid := post.others[d].Sub(pre.others[d])
			if !dDist.Equal(dColl.Neg().Sub(dPools).Sub(paid)) {
				r.Violation(id, fmt.Sprintf("begin-block|%s|%s|distribution-account≠fees+slashed−rewards-paid", src, d), fmt.Sprintf("height %d: distribution account %+s, fee collector %+s, staking pools %+s, paid out to accounts %+s", n.Height, dDist, dColl, dPools, paid), detail)
				return
			}
			if paid.IsNegative() {
				r.Violation(id, fmt.Sprintf("begin-block|%s|%s|accounts-debited-in-begin-block", src, d), fmt.Sprintf("height %d: ordinary accounts lost %s", n.Height, paid.Neg()), detail)
				return
			}
			dPool := post.pool.AmountOf(d).Sub(pre.pool.AmountOf(d))
			dOut := post.outstanding.AmountOf(d).Sub(pre.outstanding.AmountOf(d))
			if !dPool.Equal(sdk.NewDecFromInt(dDist).Sub(dOut)) {
				r.Violation(id, fmt.Sprintf("begin-block|%s|%s|community-pool≠slashed+fees−rewards", src, d), fmt.Sprintf("height %d: community pool %+s, distribution account %+s, outstanding rewards %+s (slashed %s)", n.Height, dPool, dDist, dOut, dPools.Neg()), detail)
				return
			}
			if dPools.IsNegative() {
				kind := "bonded"
				if post.notBonded[d].LT(pre.notBonded[d]) {
					kind = "incl-unbonding-or-redelegating"
				}
				r.Count("slash_events", 1)
				r.Nontriv(fmt.Sprintf("%s|%s|%s", src, d, kind))
			}
		}
		_ = slashedAny
		r.Count("begin_block_windows", 1)
		// ---- governance switches: transfers of a denomination (or the default) disabled / enabled ----
		if rng.Intn(12) == 0 {
			d := []string{vn.Denom, "uother"}[rng.Intn(2)]
			if rng.Intn(4) == 0 {
				p := n.App.BankKeeper.GetParams(n.Ctx())
				p.DefaultSendEnabled = !p.DefaultSendEnabled
				_ = n.App.BankKeeper.SetParams(n.Ctx(), p)
				trace = append(trace, fmt.Sprintf("h=%d default_send_enabled -> %v", n.Height, p.DefaultSendEnabled))
			} else {
				on := n.App.BankKeeper.IsSendEnabledDenom(n.Ctx(), d)
				n.App.BankKeeper.SetSendEnabled(n.Ctx(), d, !on)
				trace = append(trace, fmt.Sprintf("h=%d send_enabled(%s) -> %v", n.Height, d, !on))
			}
			r.Count("send_enabled_toggles", 1)
		}
		// ---- transactions ----
		for k := 0; k < rng.Intn(5); k++ {
			a := n.Accounts[rng.Intn(len(n.Accounts))]
			val := n.Vals[rng.Intn(4)]
			switch rng.Intn(10) {
			case 0, 1:
				if deliver(a, stakingtypes.NewMsgDelegate(a.Addr, val.ValAddr, sdk.NewCoin(vn.Denom, unit.MulRaw(int64(rng.Intn(50)+1))))) {
					trace = append(trace, fmt.Sprintf("h%d delegate", n.Height))
				}
			case 2:
				if dels := n.App.StakingKeeper.GetDelegatorDelegations(n.Ctx(), a.Addr, 5); len(dels) > 0 {
					if deliver(a, stakingtypes.NewMsgUndelegate(a.Addr, dels[0].GetValidatorAddr(), sdk.NewCoin(vn.Denom, unit.MulRaw(int64(rng.Intn(5)+1))))) {
						trace = append(trace, fmt.Sprintf("h%d undelegate", n.Height))
					}
				}
			case 3:
				if dels := n.App.StakingKeeper.GetDelegatorDelegations(n.Ctx(), a.Addr, 5); len(dels) > 0 {
					dst := n.Vals[rng.Intn(4)].ValAddr
					if !dst.Equals(dels[0].GetValidatorAddr()) && deliver(a, stakingtypes.NewMsgBeginRedelegate(a.Addr, dels[0].GetValidatorAddr(), dst, sdk.NewCoin(vn.Denom, unit.MulRaw(int64(rng.Intn(5)+1))))) {
						trace = append(trace, fmt.Sprintf("h%d redelegate", n.Height))
					}
				}
			case 4, 5: // proposal with a deposit, sometimes below the minimum, sometimes in two denoms
				dep := sdk.NewCoins(sdk.NewCoin(vn.Denom, sdkmath.NewIntWithDecimal(int64(rng.Intn(14)+1), 18)))
				if rng.Intn(2) == 0 {
					dep = dep.Add(sdk.NewCoin("uother", sdkmath.NewInt(int64(rng.Intn(5000)+1))))
				}
				msg, err := govv1beta1.NewMsgSubmitProposal(govv1beta1.NewTextProposal("t", "d"), dep, a.Addr)
				if err == nil && deliver(a, msg) {
					pid, _ := n.App.GovKeeper.GetProposalID(n.Ctx())
					proposals = append(proposals, pid-1)
					trace = append(trace, fmt.Sprintf("h%d proposal %d deposit %s", n.Height, pid-1, dep))
				}
			case 6:
				if len(proposals) > 0 {
					dep := sdk.NewCoins(sdk.NewCoin("uother", sdkmath.NewInt(int64(rng.Intn(900)+1))))
					if rng.Intn(2) == 0 {
						dep = sdk.NewCoins(sdk.NewCoin(vn.Denom, sdkmath.NewIntWithDecimal(int64(rng.Intn(8)+1), 18)))
					}
					deliver(a, govv1.NewMsgDeposit(a.Addr, proposals[rng.Intn(len(proposals))], dep))
				}
			case 7, 8: // validators vote: mostly veto or no
				if len(proposals) > 0 {
					v := n.Vals[rng.Intn(4)]
					opt := []govv1.VoteOption{govv1.OptionNoWithVeto, govv1.OptionNoWithVeto, govv1.OptionNo, govv1.OptionAbstain}[rng.Intn(4)]
					if deliver(v.Oper, govv1.NewMsgVote(v.Oper.Addr, proposals[rng.Intn(len(proposals))], opt, "")) {
						trace = append(trace, fmt.Sprintf("h%d vote %s", n.Height, opt))
					}
				}
			default:
				for v := range n.Vals {
					if vv, found := n.App.StakingKeeper.GetValidator(n.Ctx(), n.Vals[v].ValAddr); found && vv.Jailed && !n.Absent[v] {
						deliver(n.Vals[v].Oper, &slashingMsgUnjail{ValidatorAddr: n.Vals[v].ValAddr.String()})
						break
					}
				}
			}
		}
		if len(trace) > 14 {
			trace = trace[len(trace)-14:]
		}
		// ---- EndBlock window ----
		preE := c14Observe(n)
		n.EndBlock()
		postE := c14Observe(n)
		for _, d := range c14Denoms {
			dSup := postE.supply[d].Sub(preE.supply[d])
			dColl := postE.coll[d].Sub(preE.coll[d])
			dGov := postE.gov[d].Sub(preE.gov[d])
			dDist := postE.dist[d].Sub(preE.dist[d])
			dPool := postE.pool.AmountOf(d).Sub(preE.pool.AmountOf(d))
			src := "none"
			if dGov.IsNegative() {
				src = "gov-deposits-leave"
			}
			detail := map[string]any{"height": n.Height, "trace": trace}
			if !dSup.Equal(dColl) {
				r.Violation(id, fmt.Sprintf("end-block|%s|%s|supply-changed-beyond-mint", src, d), fmt.Sprintf("height %d: supply of %s %+s, fee collector (coinomics mint) %+s, gov account %+s, distribution account %+s", n.Height, d, dSup, dColl, dGov, dDist), detail)
				return
			}
			if !dPool.Equal(sdk.NewDecFromInt(dDist)) {
				r.Violation(id, fmt.Sprintf("end-block|%s|%s|community-pool≠coins-received", src, d), fmt.Sprintf("height %d: community pool %+s, distribution account %+s, gov account %+s", n.Height, dPool, dDist, dGov), detail)
				return
			}
			if dDist.IsPositive() {
				r.Count("deposit_burn_events", 1)
				r.Nontriv(fmt.Sprintf("gov-burn|%s", d))
			} else if dGov.IsNegative() {
				r.Count("deposit_refund_events", 1)
			}
		}
		r.Count("end_block_windows", 1)
		n.Commit()
	}
	r.Sample("history", map[string]any{"id": id, "coinomics": coin, "trace_tail": trace})
}
