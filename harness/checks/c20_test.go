//go:build verif

package checks

import (
	"encoding/hex"
	"fmt"
	"os"
	"path/filepath"
	"strings"
	"testing"

	abci "github.com/cometbft/cometbft/abci/types"
	"github.com/ethereum/go-ethereum/common"

	"verif/harness/report"
	"verif/harness/vn"
)

func TestC20(t *testing.T) {
	r := report.Start("C20")
	defer r.Finish()
	nh := r.Cases(8, 64)
	for i := 0; i < nh; i++ {
		id := fmt.Sprintf("hist/%d", i)
		if !r.Want(id, i) {
			continue
		}
		c20History(r, id)
	}
	// directed: governance campaigns on the EVM parameters in quick succession, half of them with a
	// failing second message (the parameter change is executed and rolled back), restarts after every block
	ng := r.Cases(6, 48)
	for i := 0; i < ng; i++ {
		id := fmt.Sprintf("gov/%d", i)
		if !r.Want(id, nh+i) {
			continue
		}
		c20History(r, id)
	}
}

// battery is what a node answers at a block boundary (after Commit, before the next BeginBlock).
type battery struct {
	InfoHeight  int64
	InfoAppHash string
	Queries     map[string]string
	CheckTx     []string
	Precompiles string
}

var c20QueryPaths = []string{
	"/cosmos.bank.v1beta1.Query/TotalSupply",
	"/cosmos.staking.v1beta1.Query/Validators",
	"/cosmos.gov.v1.Query/Proposals",
	"/ethermint.evm.v1.Query/Params",
	"/ethermint.feemarket.v1.Query/Params",
	"/ethermint.feemarket.v1.Query/BaseFee",
	"/ethermint.feemarket.v1.Query/BlockGas",
	"/haqq.coinomics.v1.Query/Params",
	"/evmos.erc20.v1.Query/TokenPairs",
	"/evmos.epochs.v1.Query/EpochInfos",
	"/haqq.ucdao.v1.Query/TotalBalance",
	"/haqq.liquidvesting.v1.Query/Denoms",
}

func takeBattery(n *vn.Node, nextTxs [][]byte) battery {
	b := battery{Queries: map[string]string{}}
	info := n.App.Info(abci.RequestInfo{})
	b.InfoHeight, b.InfoAppHash = info.LastBlockHeight, hex.EncodeToString(info.LastBlockAppHash)
	for _, p := range c20QueryPaths {
		func() {
			defer func() {
				if rec := recover(); rec != nil {
					b.Queries[p] = fmt.Sprintf("panic: %.80v", rec)
				}
			}()
			res := n.App.Query(abci.RequestQuery{Path: p})
			b.Queries[p] = fmt.Sprintf("code=%d %s %s", res.Code, h8(res.Value), short(res.Log, 60))
		}()
	}
	// the transactions of the next block are valid right now: the mempool check must say the
	// same on a node that never stopped and on one that was just restarted
	for i, tx := range nextTxs {
		if i >= 4 {
			break
		}
		func() {
			defer func() {
				if rec := recover(); rec != nil {
					b.CheckTx = append(b.CheckTx, fmt.Sprintf("panic: %.80v", rec))
				}
			}()
			res := n.App.CheckTx(abci.RequestCheckTx{Tx: tx, Type: abci.CheckTxType_New})
			// admission decision only: gas-wanted and priority of CheckTx reflect the SDK's check
			// state (height 0 until the first commit after a start), which is not part of the statement
			b.CheckTx = append(b.CheckTx, fmt.Sprintf("code=%d codespace=%s %s", res.Code, res.Codespace, short(res.Log, 70)))
		}()
	}
	// every active precompile is available in the keeper
	func() {
		defer func() {
			if rec := recover(); rec != nil {
				b.Precompiles = fmt.Sprintf("panic: %.120v", rec)
			}
		}()
		ctx := n.App.NewContext(true, n.Header)
		p := n.App.EvmKeeper.GetParams(ctx)
		var addrs []common.Address
		for _, a := range p.ActivePrecompiles {
			addrs = append(addrs, common.HexToAddress(a))
		}
		m := n.App.EvmKeeper.Precompiles(addrs...)
		b.Precompiles = fmt.Sprintf("%d active, %d available", len(addrs), len(m))
	}()
	return b
}

func short(s string, n int) string {
	if len(s) > n {
		return s[:n]
	}
	return s
}

func c20History(r *report.R, id string) {
	h, _ := histCfgFor(r, id)
	g := newHistGen(h, r.Rand(id))
	nblocks := r.Pick(30, 150)
	if strings.HasPrefix(id, "gov/") {
		g.campEvery, g.campFailEvery, g.campKinds, g.slowBlocks = 2, 2, []int{0, 1, 2, 3, 3, 3, 4, 5, 7, 7}, true
		nblocks = r.Pick(45, 120)
	}
	for b := 0; b < nblocks; b++ {
		g.block()
	}
	base := os.Getenv("VERIF_OUT")
	if base == "" {
		base = os.TempDir()
	}
	work := filepath.Join(base, "c20_"+strings.ReplaceAll(id, "/", "_"))
	_ = os.MkdirAll(work, 0o755)
	defer os.RemoveAll(work)
	hp := filepath.Join(work, "history.json")
	if err := saveHistory(h, g.n, hp); err != nil {
		r.Inconcl("cannot write history: %v", err)
		return
	}
	f, _ := loadHistory(hp)
	nextTxs := func(height int64) [][]byte {
		if int(height) < len(f.Blocks) {
			return f.Blocks[height].Txs // block height+1 (0-based index = height)
		}
		return nil
	}
	// node A: never stops
	batA := map[int64]battery{}
	dirA := filepath.Join(work, "a")
	_ = os.MkdirAll(dirA, 0o755)
	trA, _, err := runReplica(f, replicaKnobs{DB: "goleveldb"}, dirA, func(n *vn.Node, height int64, _ bool) {
		batA[height] = takeBattery(n, nextTxs(height))
	})
	if err != nil {
		r.Inconcl("node A failed: %v", err)
		return
	}
	// node B: stopped and reopened from its database after every block
	var restartAt []int
	for hgt := 1; hgt <= len(f.Blocks); hgt++ {
		restartAt = append(restartAt, hgt)
	}
	dirB := filepath.Join(work, "b")
	_ = os.MkdirAll(dirB, 0o755)
	bad := false
	special := g.special
	trB, statsB, err := runReplica(f, replicaKnobs{DB: "goleveldb", RestartAt: restartAt}, dirB, func(n *vn.Node, height int64, restarted bool) {
		if bad || !restarted {
			return
		}
		r.Eval(1)
		cls := "plain"
		if s, ok := special[height]; ok {
			cls = "right-after:" + s
		}
		got := takeBattery(n, nextTxs(height))
		want := batA[height]
		detail := map[string]any{"cfg": h, "height": height, "block_class": cls}
		if got.InfoHeight != want.InfoHeight || got.InfoAppHash != want.InfoAppHash {
			r.Violation(id, "info|"+cls, fmt.Sprintf("after restart at height %d Info reports (%d, %s), the node that never stopped (%d, %s)", height, got.InfoHeight, got.InfoAppHash, want.InfoHeight, want.InfoAppHash), detail)
			bad = true
			return
		}
		for p, w := range want.Queries {
			if got.Queries[p] != w {
				r.Violation(id, "query:"+p+"|"+cls, fmt.Sprintf("after restart at height %d query %s answers %q, the node that never stopped %q", height, p, got.Queries[p], w), detail)
				bad = true
				return
			}
		}
		earlierDiff := false
		for i := range want.CheckTx {
			if i >= len(got.CheckTx) || got.CheckTx[i] != want.CheckTx[i] {
				g := ""
				if i < len(got.CheckTx) {
					g = got.CheckTx[i]
				}
				// the battery submits the transactions of the next block one after the other to the same
				// check state: once one of them was answered differently (reported below), a later one
				// of the same sender fails on the nonce / sequence the earlier one would have advanced
				if earlierDiff && (strings.Contains(g, "invalid nonce") || strings.Contains(g, "invalid sequence") || strings.Contains(g, "account sequence mismatch")) {
					r.Count("checktx_differences_following_from_an_earlier_one", 1)
					continue
				}
				earlierDiff = true
				kind := "cosmos"
				if isEthTx(nextTxs(height)[i]) {
					kind = "ethereum"
				}
				// why the restarted node decides differently
				reason := "other"
				switch {
				case strings.Contains(g, "couldn't retrieve sender address"):
					reason = "evm-keeper-chain-id-not-set"
				case kind == "cosmos":
					// the SDK's check state sits at height 0 from process start until the first commit:
					// signatures are verified with account number 0 there, and every later transaction
					// of the same signer then fails on the sequence
					reason = "sdk-check-state-at-height-0"
				case strings.Contains(g, "not supported") || strings.Contains(strings.ToLower(g), "london") || strings.Contains(g, "base fee"):
					reason = "sdk-check-state-at-height-0"
				}
				r.Violation(id, "checktx:"+kind+"|"+reason, fmt.Sprintf("after restart at height %d (%s) CheckTx of a transaction of the next block answers %q, the node that never stopped %q", height, cls, g, want.CheckTx[i]), detail)
				// mempool admission does not touch committed state: keep comparing the rest
				r.Count("checktx_differences", 1)
				continue
			}
		}
		if got.Precompiles != want.Precompiles || strings.HasPrefix(got.Precompiles, "panic") {
			r.Violation(id, "precompiles-available|"+cls, fmt.Sprintf("after restart at height %d: %s; never stopped: %s", height, got.Precompiles, want.Precompiles), detail)
			bad = true
			return
		}
		r.Count("boundaries_checked", 1)
		r.Count("battery_items_compared", 1+len(want.Queries)+len(want.CheckTx)+1)
		r.Nontriv(fmt.Sprintf("%s|h%d|%s", id, height, cls))
		if cls != "plain" {
			r.Count("restarts_right_after_special_block", 1)
		}
	})
	if err != nil {
		r.Violation(id, "restarted-node-crashed", err.Error(), map[string]any{"cfg": h})
		return
	}
	if bad {
		return
	}
	if what, field, _ := compareTraces(trA, trB); what != "" {
		r.Violation(id, "block-trace|"+field, "the node restarted after every block diverges from the node that never stopped: "+what, map[string]any{"cfg": h})
		return
	}
	r.Count("restarts", statsB["restarts"])
	r.Count("blocks_compared", len(trB))
	for k, v := range g.constr {
		r.Count("construct/"+k, v)
	}
	r.Sample("history", map[string]any{"id": id, "cfg": h, "blocks": len(trB), "special_blocks": special})
}

func isEthTx(tx []byte) bool { return strings.Contains(string(tx), "ExtensionOptionsEthereumTx") }
