//go:build verif

package checks

import (
	"encoding/json"
	"fmt"
	"math/big"
	"math/rand"
	"os"
	"strings"
	"time"

	sdkmath "cosmossdk.io/math"
	abci "github.com/cometbft/cometbft/abci/types"
	tmproto "github.com/cometbft/cometbft/proto/tendermint/types"
	"github.com/cosmos/cosmos-sdk/codec"
	codectypes "github.com/cosmos/cosmos-sdk/codec/types"
	"github.com/cosmos/cosmos-sdk/crypto/keys/ed25519"
	sdk "github.com/cosmos/cosmos-sdk/types"
	sdkvesting "github.com/cosmos/cosmos-sdk/x/auth/vesting/types"
	"github.com/cosmos/cosmos-sdk/x/authz"
	banktypes "github.com/cosmos/cosmos-sdk/x/bank/types"
	distrtypes "github.com/cosmos/cosmos-sdk/x/distribution/types"
	"github.com/cosmos/cosmos-sdk/x/feegrant"
	govv1 "github.com/cosmos/cosmos-sdk/x/gov/types/v1"
	govv1beta1 "github.com/cosmos/cosmos-sdk/x/gov/types/v1beta1"
	stakingtypes "github.com/cosmos/cosmos-sdk/x/staking/types"
	transfertypes "github.com/cosmos/ibc-go/v7/modules/apps/transfer/types"
	clienttypes "github.com/cosmos/ibc-go/v7/modules/core/02-client/types"
	channeltypes "github.com/cosmos/ibc-go/v7/modules/core/04-channel/types"
	localhost "github.com/cosmos/ibc-go/v7/modules/light-clients/09-localhost"
	"github.com/ethereum/go-ethereum/common"

	"github.com/haqq-network/haqq/app"
	ics20pc "github.com/haqq-network/haqq/precompiles/ics20"
	haqqtypes "github.com/haqq-network/haqq/types"
	coinomicstypes "github.com/haqq-network/haqq/x/coinomics/types"
	erc20types "github.com/haqq-network/haqq/x/erc20/types"
	evmtypes "github.com/haqq-network/haqq/x/evm/types"
	feemarkettypes "github.com/haqq-network/haqq/x/feemarket/types"
	lvtypes "github.com/haqq-network/haqq/x/liquidvesting/types"
	ucdaotypes "github.com/haqq-network/haqq/x/ucdao/types"
	vestingtypes "github.com/haqq-network/haqq/x/vesting/types"

	"verif/harness/evmasm"
	"verif/harness/vn"
)

// histCfg is the serialisable description of a mixed-history chain.
type histCfg struct {
	ChainID     string    `json:"chain_id"`
	Seed        uint64    `json:"seed"`
	NumVals     int       `json:"num_vals"`
	NumAccounts int       `json:"num_accounts"`
	GenesisTime time.Time `json:"genesis_time"`
	Coinomics   bool      `json:"coinomics"`
	BaseFee     bool      `json:"base_fee"`
	MaxGas      int64     `json:"max_gas"`
}

func (h histCfg) vnConfig() vn.Config {
	cp := *app.DefaultConsensusParams
	cp.Block = &tmproto.BlockParams{MaxBytes: 2_000_000, MaxGas: h.MaxGas}
	cfg := vn.Config{ChainID: h.ChainID, Seed: h.Seed, NumVals: h.NumVals, NumAccounts: h.NumAccounts, GenesisTime: h.GenesisTime, ConsParams: &cp,
		AccountBalance: sdkmath.NewIntWithDecimal(1_000_000, 18)}
	coin, basefee := h.Coinomics, h.BaseFee
	cfg.Mutate = func(cdc codec.Codec, gs haqqtypes.GenesisState) {
		if coin {
			p := coinomicstypes.DefaultParams()
			p.EnableCoinomics = true
			g := coinomicstypes.NewGenesisState(p, sdk.NewCoin(vn.Denom, sdkmath.NewIntWithDecimal(1, 30)))
			gs[coinomicstypes.ModuleName] = cdc.MustMarshalJSON(&g)
		}
		fm := feemarkettypes.DefaultGenesisState()
		fm.Params.NoBaseFee = !basefee
		fm.Params.BaseFee = sdkmath.NewInt(1_000_000_000)
		fm.Params.MinGasPrice = sdk.ZeroDec()
		gs[feemarkettypes.ModuleName] = cdc.MustMarshalJSON(fm)
		lg := lvtypes.DefaultGenesisState()
		lg.Params.MinimumLiquidationAmount = sdkmath.NewInt(1000)
		gs[lvtypes.ModuleName] = cdc.MustMarshalJSON(lg)
	}
	return cfg
}

// histFile is what a leader writes and followers replay.
type histFile struct {
	Cfg    histCfg     `json:"cfg"`
	Blocks []histBlock `json:"blocks"`
}

type histBlock struct {
	DtNs     int64              `json:"dt_ns"`
	Proposer int                `json:"proposer"`
	Votes    []abci.VoteInfo    `json:"votes"`
	Evidence []abci.Misbehavior `json:"evidence"`
	Txs      [][]byte           `json:"txs"`
}

func saveHistory(h histCfg, n *vn.Node, path string) error {
	f := histFile{Cfg: h}
	for _, b := range n.Log {
		f.Blocks = append(f.Blocks, histBlock{DtNs: int64(b.Opts.Dt), Proposer: b.Opts.Proposer, Votes: b.Opts.Votes, Evidence: b.Opts.Evidence, Txs: b.Txs})
	}
	bz, err := json.Marshal(f)
	if err != nil {
		return err
	}
	return os.WriteFile(path, bz, 0o644)
}

func loadHistory(path string) (histFile, error) {
	var f histFile
	bz, err := os.ReadFile(path)
	if err != nil {
		return f, err
	}
	return f, json.Unmarshal(bz, &f)
}

// ---- generator -------------------------------------------------------------------

type ibcRecvd struct {
	pkt channeltypes.Packet
	ack []byte
}

type histGen struct {
	n      *vn.Node
	rng    *rand.Rand
	h      histCfg
	ok     map[string]int // successful transactions per family
	tried  map[string]int
	constr map[string]int // order-sensitive constructs observed
	// live objects
	vestAccs        []vn.Account // clawback vesting accounts created (their keys are known)
	vestFunder      map[string]vn.Account
	liquid          []string // liquid denoms
	contracts       []common.Address
	forwarders      map[string]common.Address // precompile forwarders by name
	proposals       []uint64
	extraVals       []vn.Account
	fresh           int
	jailed          map[int]int64 // validator index -> height it went absent
	usedInBlk       map[string]bool
	failLog         map[string]string
	failReasons     map[string]int
	boostRewardFees bool
	poor            []vn.Account // accounts that staked nearly everything and pay fees out of rewards
	// IBC loopback (two ICS-20 channel ends on this chain, connected over connection-localhost)
	lbA, lbB   string
	ibcPending []channeltypes.Packet
	ibcRecvd   []ibcRecvd
	lastRes    abci.ResponseDeliverTx
	// governance campaign: a param-changing proposal that all validators vote for
	campID    uint64
	// knobs for directed histories: how often a campaign starts (1 in campEvery blocks), which
	// parameter kinds, how often the proposal carries a failing second message, long block times
	campEvery, campFailEvery int
	campKinds                []int
	slowBlocks               bool
	focus                    []int // families that every second transaction is drawn from (directed histories)
	campVoted map[int]bool
	campKind  string
	special   map[int64]string   // height -> what special thing happened in that block
	hook      func(phase string) // called at "pre-endblock", "post-endblock", "post-commit"
}

func newHistGen(h histCfg, rng *rand.Rand) *histGen {
	n := vn.New(h.vnConfig())
	return &histGen{n: n, rng: rng, h: h, ok: map[string]int{}, tried: map[string]int{}, constr: map[string]int{}, vestFunder: map[string]vn.Account{}, forwarders: map[string]common.Address{}, jailed: map[int]int64{}}
}

func (g *histGen) price() *big.Int {
	if g.h.BaseFee {
		return new(big.Int).Mul(g.n.App.FeeMarketKeeper.GetParams(g.n.Ctx()).BaseFee.BigInt(), big.NewInt(3))
	}
	return big.NewInt(1_000_000_000)
}

func (g *histGen) acct() vn.Account {
	for i := 0; i < 20; i++ {
		a := g.n.Accounts[g.rng.Intn(len(g.n.Accounts))]
		if !g.usedInBlk[a.Addr.String()] {
			g.usedInBlk[a.Addr.String()] = true
			return a
		}
	}
	return g.n.Accounts[g.rng.Intn(len(g.n.Accounts))]
}

func (g *histGen) cosmos(fam string, signer vn.Account, msgs ...sdk.Msg) bool {
	gas := uint64(3_000_000)
	if strings.HasPrefix(fam, "liquidvesting") {
		gas = 12_000_000 // liquidation deploys an ERC20 contract
	}
	if g.h.MaxGas > 0 && int64(gas) > g.h.MaxGas/2 {
		gas = uint64(g.h.MaxGas / 2)
	}
	fee := sdk.NewCoins(sdk.NewCoin(vn.Denom, sdkmath.NewIntFromBigInt(new(big.Int).Mul(g.price(), new(big.Int).SetUint64(gas)))))
	var opts []*codectypes.Any
	mode := g.rng.Intn(4)
	args := vn.CosmosArgs{Msgs: msgs, Gas: gas, Fee: fee}
	if mode == 1 {
		o, _ := codectypes.NewAnyWithValue(&haqqtypes.ExtensionOptionDynamicFeeTx{MaxPriorityPrice: sdkmath.NewInt(int64(g.rng.Intn(1000)))})
		opts = append(opts, o)
		args.ExtOpts = opts
	}
	g.tried[fam]++
	res := g.n.Deliver(g.n.CosmosTx(args, signer))
	g.lastRes = res
	if res.Code == 0 {
		g.ok[fam]++
		return true
	}
	if g.failLog == nil {
		g.failLog = map[string]string{}
	}
	if _, seen := g.failLog[fam]; !seen {
		g.failLog[fam] = res.Log
	}
	if g.failReasons == nil {
		g.failReasons = map[string]int{}
	}
	lg := res.Log
	if i := strings.LastIndex(lg, "haqq1"); i >= 0 && len(lg) > i+45 {
		lg = lg[i+45:]
	}
	if len(lg) > 70 {
		lg = lg[:70]
	}
	g.failReasons[fam+": "+lg]++
	return false
}

func (g *histGen) eth(fam string, from vn.Account, to *common.Address, value int64, data []byte, gas uint64) (bool, abci.ResponseDeliverTx) {
	p := g.price()
	g.tried[fam]++
	res := g.n.Deliver(g.n.EthTx(from, vn.EthArgs{Type: g.rng.Intn(3), Nonce: g.n.EthNonce(from.Eth), To: to, Value: big.NewInt(value), Gas: gas, GasPrice: p, GasFeeCap: p, GasTipCap: big.NewInt(1), Data: data}))
	ers := vn.EthResult(res)
	if res.Code == 0 && len(ers) == 1 && ers[0].VmError == "" {
		g.ok[fam]++
		return true, res
	}
	return false, res
}

func (g *histGen) freshAcc() vn.Account {
	g.fresh++
	return vn.DetAccount(g.h.Seed^0xF00D, "hist-fresh", g.fresh)
}

// block runs one block of the mixed workload.
func (g *histGen) block() {
	n, rng := g.n, g.rng
	opts := vn.BlockOpts{Dt: time.Duration(rng.Intn(5000)+1) * time.Millisecond}
	switch rng.Intn(12) {
	case 0:
		opts.Dt = time.Millisecond
	case 1:
		opts.Dt = time.Duration(rng.Intn(40)+5) * time.Second
	case 2:
		opts.Dt = time.Duration(rng.Intn(30)+1) * time.Hour
	}
	if g.slowBlocks && rng.Intn(3) > 0 {
		opts.Dt = time.Duration(rng.Intn(12)+6) * time.Second
	}
	opts.Proposer, opts.HasProp = rng.Intn(len(n.Vals)), true
	// absence / return of a validator, double-sign evidence
	if len(n.Vals) > 1 {
		if rng.Intn(25) == 0 {
			v := 1 + rng.Intn(len(n.Vals)-1)
			if !n.Absent[v] {
				n.Absent[v] = true
				g.jailed[v] = n.Height
			}
		}
		for v, since := range g.jailed {
			if n.Height-since > 14 && rng.Intn(3) == 0 {
				delete(n.Absent, v)
				delete(g.jailed, v)
				// unjail later by a tx (family slashing)
			}
		}
		if rng.Intn(60) == 0 && n.Height > 3 {
			v := 1 + rng.Intn(len(n.Vals)-1)
			// CometBFT only reports equivocation of validators that are still bonded or unbonding
			// (evidence max age ≤ unbonding time on real networks)
			if val, found := n.App.StakingKeeper.GetValidator(n.Ctx(), n.Vals[v].ValAddr); found && !val.IsUnbonded() {
				opts.Evidence = []abci.Misbehavior{n.DoubleSignEvidence(v, n.Height-1, n.Time.Add(-time.Second))}
				g.constr["double-sign-evidence"]++
			}
		}
	}
	n.BeginBlock(opts)
	g.usedInBlk = map[string]bool{}
	ntx := rng.Intn(7)
	for i := 0; i < ntx; i++ {
		func() {
			defer func() {
				if rec := recover(); rec != nil {
					// a generator bug must not look like a chain bug: count and go on
					g.constr["generator-panic"]++
				}
			}()
			g.tx()
		}()
	}
	func() {
		defer func() { _ = recover() }()
		g.campaign()
	}()
	if g.hook != nil {
		g.hook("pre-endblock")
	}
	n.EndBlock()
	g.afterEndBlock()
	if g.hook != nil {
		g.hook("post-endblock")
	}
	n.Commit()
	if g.hook != nil {
		g.hook("post-commit")
	}
}

// campaign drives one param-changing governance proposal to success.
func (g *histGen) campaign() {
	n, rng := g.n, g.rng
	if g.special == nil {
		g.special = map[int64]string{}
	}
	if g.campID == 0 {
		every := 12
		if g.campEvery > 0 {
			every = g.campEvery
		}
		if rng.Intn(every) > 0 {
			return
		}
		a := g.acct()
		authority := vn.ModuleAddr("gov").String()
		var msg sdk.Msg
		kind := ""
		pick := rng.Intn(8)
		if len(g.campKinds) > 0 {
			pick = g.campKinds[rng.Intn(len(g.campKinds))]
		}
		forceFail := false
		switch pick {
		case 7: // the gas token itself: only ever proposed together with a failing message, so it is executed and rolled back
			p := n.App.EvmKeeper.GetParams(n.Ctx())
			p.EvmDenom = "aother"
			msg, kind, forceFail = &evmtypes.MsgUpdateParams{Authority: authority, Params: p}, "evm.evm-denom", true
		case 0:
			p := n.App.EvmKeeper.GetParams(n.Ctx())
			p.AllowUnprotectedTxs = !p.AllowUnprotectedTxs
			msg, kind = &evmtypes.MsgUpdateParams{Authority: authority, Params: p}, "evm.allow-unprotected-toggle"
		case 1:
			p := n.App.EvmKeeper.GetParams(n.Ctx())
			if len(p.ExtraEIPs) > 0 {
				p.ExtraEIPs = nil
			} else {
				p.ExtraEIPs = []int64{3855}
			}
			msg, kind = &evmtypes.MsgUpdateParams{Authority: authority, Params: p}, "evm.extra-eips-toggle"
		case 2:
			p := n.App.EvmKeeper.GetParams(n.Ctx())
			var keep []string
			removed := false
			for _, x := range p.ActivePrecompiles {
				if !removed && (x == addrDist.Hex() || x == addrBank.Hex()) {
					removed = true
					continue
				}
				keep = append(keep, x)
			}
			if !removed {
				keep = evmtypes.AvailableEVMExtensions
			}
			p.ActivePrecompiles = keep
			msg, kind = &evmtypes.MsgUpdateParams{Authority: authority, Params: p}, "evm.active-precompiles-change"
		case 3:
			p := n.App.EvmKeeper.GetParams(n.Ctx())
			far := sdkmath.NewInt(n.Height + 1_000_000)
			if p.ChainConfig.LondonBlock != nil && p.ChainConfig.LondonBlock.IsZero() {
				p.ChainConfig.LondonBlock, p.ChainConfig.ArrowGlacierBlock, p.ChainConfig.GrayGlacierBlock, p.ChainConfig.MergeNetsplitBlock, p.ChainConfig.ShanghaiBlock, p.ChainConfig.CancunBlock = &far, &far, &far, &far, &far, &far
			} else {
				z := sdkmath.ZeroInt()
				p.ChainConfig.LondonBlock, p.ChainConfig.ArrowGlacierBlock, p.ChainConfig.GrayGlacierBlock, p.ChainConfig.MergeNetsplitBlock, p.ChainConfig.ShanghaiBlock, p.ChainConfig.CancunBlock = &z, &z, &z, &z, &z, &z
			}
			msg, kind = &evmtypes.MsgUpdateParams{Authority: authority, Params: p}, "evm.chain-config-forks"
		case 4:
			p := n.App.EvmKeeper.GetParams(n.Ctx())
			p.EnableCreate = !p.EnableCreate
			msg, kind = &evmtypes.MsgUpdateParams{Authority: authority, Params: p}, "evm.enable-create-toggle"
		case 5:
			p := n.App.FeeMarketKeeper.GetParams(n.Ctx())
			p.MinGasMultiplier = sdk.NewDecWithPrec(int64(rng.Intn(10)), 1)
			p.MinGasPrice = sdk.NewDec(int64(rng.Intn(3)) * 1_000_000)
			msg, kind = &feemarkettypes.MsgUpdateParams{Authority: authority, Params: p}, "feemarket.params"
		default:
			p := n.App.FeeMarketKeeper.GetParams(n.Ctx())
			p.BaseFeeChangeDenominator = uint32(2 + rng.Intn(60))
			p.ElasticityMultiplier = uint32(1 + rng.Intn(4))
			msg, kind = &feemarkettypes.MsgUpdateParams{Authority: authority, Params: p}, "feemarket.elasticity"
		}
		msgs := []sdk.Msg{msg}
		failEvery := 4
		if g.campFailEvery > 0 {
			failEvery = g.campFailEvery
		}
		if forceFail || rng.Intn(failEvery) == 0 {
			// a second message that cannot succeed: the proposal passes the vote, executes the
			// parameter change, fails, and everything it wrote is rolled back (status FAILED)
			msgs = append(msgs, &banktypes.MsgSend{FromAddress: authority, ToAddress: a.Addr.String(), Amount: sdk.NewCoins(sdk.NewCoin(vn.Denom, sdkmath.NewIntWithDecimal(1, 40)))})
			kind += "(+failing-message)"
		}
		sp, err := govv1.NewMsgSubmitProposal(msgs, sdk.NewCoins(sdk.NewCoin(vn.Denom, sdkmath.NewIntWithDecimal(10, 18))), a.Addr.String(), "", kind, "verif")
		if err == nil && g.cosmos("gov.submit-params:"+kind, a, sp) {
			id, _ := n.App.GovKeeper.GetProposalID(n.Ctx())
			g.campID, g.campVoted, g.campKind = id-1, map[int]bool{}, kind
		}
		return
	}
	// vote with every validator operator, one or two per block
	for v := range n.Vals {
		if !g.campVoted[v] && !g.usedInBlk[n.Vals[v].Oper.Addr.String()] {
			g.usedInBlk[n.Vals[v].Oper.Addr.String()] = true
			if g.cosmos("gov.vote-yes", n.Vals[v].Oper, govv1.NewMsgVote(n.Vals[v].Oper.Addr, g.campID, govv1.OptionYes, "")) {
				g.campVoted[v] = true
			}
			if rng.Intn(2) == 0 {
				break
			}
		}
	}
}

// afterEndBlock notices the block in which the campaign's proposal was executed.
func (g *histGen) afterEndBlock() {
	if g.campID == 0 {
		return
	}
	p, found := g.n.App.GovKeeper.GetProposal(g.n.Ctx(), g.campID)
	if !found || p.Status == govv1.StatusVotingPeriod || p.Status == govv1.StatusDepositPeriod {
		return
	}
	if p.Status == govv1.StatusPassed {
		g.special[g.n.Height] = "param-change:" + g.campKind
		g.constr["governance-param-change:"+g.campKind]++
	}
	if p.Status == govv1.StatusFailed {
		g.special[g.n.Height] = "param-change-rolled-back:" + g.campKind
		g.constr["governance-param-change-rolled-back"]++
	}
	g.campID = 0
}

func (g *histGen) tx() {
	n, rng := g.n, g.rng
	a := g.acct()
	b := n.Accounts[rng.Intn(len(n.Accounts))]
	val := n.Vals[rng.Intn(len(n.Vals))]
	unit := sdkmath.NewInt(1_000_000_000_000_000)
	amt := func(k int) sdk.Coin { return sdk.NewCoin(vn.Denom, unit.MulRaw(int64(rng.Intn(k)+1))) }
	f := rng.Intn(48)
	if g.boostRewardFees && rng.Intn(5) == 0 {
		f = 28
	}
	if len(g.focus) > 0 && rng.Intn(2) == 0 {
		f = g.focus[rng.Intn(len(g.focus))]
	}
	switch {
	case f == 43: // value aimed at module accounts: by an Ethereum transfer, by a contract call, as a self-destruct beneficiary, by bank messages
		mods := []string{"distribution", "bonded_tokens_pool", "not_bonded_tokens_pool", "gov", "fee_collector", "evm", "erc20", "coinomics", "transfer"}
		target := common.BytesToAddress(vn.ModuleAddr(mods[rng.Intn(len(mods))]))
		switch rng.Intn(5) {
		case 0:
			if ok, _ := g.eth("evm.transfer-to-module-account", a, &target, int64(rng.Intn(1000)+1), nil, 100000); ok {
				g.constr["module-account-received-evm-value"]++
			}
		case 1: // a contract forwards the value
			init := evmasm.InitCode(nil, []evmasm.Step{evmasm.Transfer{To: target, Value: big.NewInt(int64(rng.Intn(500) + 1))}})
			addr := vn.CreateAddress(a.Eth, n.EthNonce(a.Eth))
			if ok, _ := g.eth("evm.deploy", a, nil, 0, init, 400000); ok {
				g.contracts = append(g.contracts, addr)
				if ok2, _ := g.eth("evm.contract-pays-module-account", a, &addr, 1000, []byte{1}, 300000); ok2 {
					g.constr["module-account-received-evm-value"]++
				}
			}
		case 2: // self-destruct with a module account as beneficiary
			init := evmasm.InitCode(nil, []evmasm.Step{evmasm.SelfDestruct{To: target}})
			addr := vn.CreateAddress(a.Eth, n.EthNonce(a.Eth))
			if ok, _ := g.eth("evm.deploy", a, nil, 0, init, 400000); ok {
				if ok2, _ := g.eth("evm.selfdestruct-to-module-account", a, &addr, int64(rng.Intn(900)+1), []byte{1}, 300000); ok2 {
					g.constr["module-account-received-evm-value"]++
				}
			}
		case 3:
			// the recipient is spelled in lower case or (equally valid bech32) in upper case
			to, fam := sdk.AccAddress(target.Bytes()).String(), "bank.send-to-module-account"
			if rng.Intn(2) == 0 {
				to, fam = strings.ToUpper(to), fam+"(upper-case-bech32)"
			}
			if g.cosmos(fam, a, &banktypes.MsgSend{FromAddress: a.Addr.String(), ToAddress: to, Amount: sdk.NewCoins(amt(10))}) {
				g.constr["module-account-received-bank-send"]++
			}
		default:
			c := amt(10)
			to, fam := sdk.AccAddress(target.Bytes()).String(), "bank.multisend-to-module-account"
			if rng.Intn(2) == 0 {
				to, fam = strings.ToUpper(to), fam+"(upper-case-bech32)"
			}
			if g.cosmos(fam, a, banktypes.NewMsgMultiSend([]banktypes.Input{{Address: a.Addr.String(), Coins: sdk.NewCoins(c)}}, []banktypes.Output{{Address: to, Coins: sdk.NewCoins(c)}})) {
				g.constr["module-account-received-bank-send"]++
			}
		}
	case f == 45: // a grant applied with the stake option (the vested part is delegated by the vesting module itself), to a plain account or merged into a vesting account
		unitc := sdk.NewCoin(vn.Denom, unit.MulRaw(int64(rng.Intn(900)+100)))
		lock := sdkvesting.Periods{{Length: int64(rng.Intn(5000) + 10), Amount: sdk.NewCoins(unitc)}}
		vest := sdkvesting.Periods{{Length: int64(rng.Intn(50) + 1), Amount: sdk.NewCoins(unitc)}}
		target, merge, fu := b, false, a
		if len(g.vestAccs) > 0 && rng.Intn(2) == 0 {
			target, merge = g.vestAccs[rng.Intn(len(g.vestAccs))], true
			if f, ok := g.vestFunder[target.Addr.String()]; ok {
				fu = f
			}
		}
		if !g.usedInBlk[fu.Addr.String()] || fu.Addr.Equals(a.Addr) {
			g.usedInBlk[fu.Addr.String()] = true
			if g.cosmos("vesting.convert-into-with-stake", fu, vestingtypes.NewMsgConvertIntoVestingAccount(fu.Addr, target.Addr, n.Time.Add(-time.Duration(rng.Intn(300)+60)*time.Second).UTC(), lock, vest, merge, true, val.ValAddr)) {
				g.constr["grant-staked-by-the-vesting-module"]++
				if !merge {
					g.vestAccs = append(g.vestAccs, target)
					g.vestFunder[target.Addr.String()] = fu
				}
			}
		}
	case f == 44: // a creation whose constructor writes storage and returns no code: an account with storage and the empty code hash
		init := common.FromHex("0x602a600055602b60015500")
		addr := vn.CreateAddress(a.Eth, n.EthNonce(a.Eth))
		if ok, _ := g.eth("evm.deploy-codeless-with-storage", a, nil, 0, init, 200000); ok {
			g.contracts = append(g.contracts, addr)
			g.constr["account-with-storage-and-no-code"]++
		}
	case f >= 40 && f <= 42:
		g.ibcTx(a, b)
	case f < 3:
		g.cosmos("bank.send", a, banktypes.NewMsgSend(a.Addr, b.Addr, sdk.NewCoins(amt(100))))
	case f == 3:
		x, y := g.freshAcc(), g.freshAcc()
		c1, c2 := amt(10), amt(10)
		in := banktypes.Input{Address: a.Addr.String(), Coins: sdk.NewCoins(c1.Add(c2))}
		if g.cosmos("bank.multisend", a, banktypes.NewMsgMultiSend([]banktypes.Input{in}, []banktypes.Output{{Address: x.Addr.String(), Coins: sdk.NewCoins(c1)}, {Address: y.Addr.String(), Coins: sdk.NewCoins(c2)}})) {
			g.constr["two-new-accounts-in-one-tx(bank)"]++
		}
	case f < 7:
		g.cosmos("staking.delegate", a, stakingtypes.NewMsgDelegate(a.Addr, val.ValAddr, amt(500)))
	case f == 7:
		if dels := n.App.StakingKeeper.GetDelegatorDelegations(n.Ctx(), a.Addr, 5); len(dels) > 0 {
			g.cosmos("staking.undelegate", a, stakingtypes.NewMsgUndelegate(a.Addr, dels[0].GetValidatorAddr(), amt(3)))
		}
	case f == 8:
		if dels := n.App.StakingKeeper.GetDelegatorDelegations(n.Ctx(), a.Addr, 5); len(dels) > 0 {
			dst := n.Vals[rng.Intn(len(n.Vals))].ValAddr
			if !dst.Equals(dels[0].GetValidatorAddr()) {
				g.cosmos("staking.redelegate", a, stakingtypes.NewMsgBeginRedelegate(a.Addr, dels[0].GetValidatorAddr(), dst, amt(3)))
			}
		}
	case f == 9:
		if ubds := n.App.StakingKeeper.GetAllUnbondingDelegations(n.Ctx(), a.Addr); len(ubds) > 0 && len(ubds[0].Entries) > 0 {
			va, _ := sdk.ValAddressFromBech32(ubds[0].ValidatorAddress)
			g.cosmos("staking.cancel-unbonding", a, stakingtypes.NewMsgCancelUnbondingDelegation(a.Addr, va, ubds[0].Entries[0].CreationHeight, sdk.NewCoin(vn.Denom, sdkmath.NewInt(1000))))
		}
	case f == 10:
		if len(g.extraVals) < 2 {
			op := g.acct()
			pk := ed25519.GenPrivKeyFromSecret([]byte(fmt.Sprintf("histval-%d-%d", g.h.Seed, len(g.extraVals)))).PubKey()
			msg, err := stakingtypes.NewMsgCreateValidator(sdk.ValAddress(op.Addr), pk, sdk.NewCoin(vn.Denom, sdkmath.NewIntWithDecimal(2, 18)), stakingtypes.Description{Moniker: "x"}, stakingtypes.NewCommissionRates(sdk.NewDecWithPrec(1, 1), sdk.NewDecWithPrec(2, 1), sdk.NewDecWithPrec(1, 2)), sdk.OneInt())
			if err == nil && g.cosmos("staking.create-validator", op, msg) {
				g.extraVals = append(g.extraVals, op)
				g.constr["validator-set-change"]++
			}
		}
	case f == 11:
		if dels := n.App.StakingKeeper.GetDelegatorDelegations(n.Ctx(), a.Addr, 5); len(dels) > 0 {
			g.cosmos("distribution.withdraw-rewards", a, distrtypes.NewMsgWithdrawDelegatorReward(a.Addr, dels[0].GetValidatorAddr()))
		}
	case f == 12:
		g.cosmos("distribution.set-withdraw-address", a, distrtypes.NewMsgSetWithdrawAddress(a.Addr, b.Addr))
	case f == 13:
		g.cosmos("distribution.fund-community-pool", a, distrtypes.NewMsgFundCommunityPool(sdk.NewCoins(amt(10)), a.Addr))
	case f == 14:
		v := n.Vals[rng.Intn(len(n.Vals))]
		if !g.usedInBlk[v.Oper.Addr.String()] {
			g.usedInBlk[v.Oper.Addr.String()] = true
			g.cosmos("distribution.withdraw-commission", v.Oper, distrtypes.NewMsgWithdrawValidatorCommission(v.ValAddr))
		}
	case f == 15: // governance: text proposal, sometimes under-funded, sometimes two denoms
		dep := sdk.NewCoins(sdk.NewCoin(vn.Denom, sdkmath.NewIntWithDecimal(int64(rng.Intn(12)+1), 18)))
		var content govv1beta1.Content = govv1beta1.NewTextProposal("t", "d")
		fam := "gov.submit-text"
		if rng.Intn(4) == 0 {
			d := fmt.Sprintf("ucoin%d", rng.Intn(1000))
			content = erc20types.NewRegisterCoinProposal("r", "d", banktypes.Metadata{Description: "x", Base: d, Display: d[1:], Name: d, Symbol: "X",
				DenomUnits: []*banktypes.DenomUnit{{Denom: d, Exponent: 0}, {Denom: d[1:], Exponent: 6}}})
			fam = "gov.submit-register-coin"
		}
		msg, err := govv1beta1.NewMsgSubmitProposal(content, dep, a.Addr)
		if err == nil && g.cosmos(fam, a, msg) {
			id, _ := n.App.GovKeeper.GetProposalID(n.Ctx())
			g.proposals = append(g.proposals, id-1)
		}
	case f == 16:
		if len(g.proposals) > 0 {
			g.cosmos("gov.deposit", a, govv1.NewMsgDeposit(a.Addr, g.proposals[rng.Intn(len(g.proposals))], sdk.NewCoins(amt(3000))))
		}
	case f == 17 || f == 18:
		if len(g.proposals) > 0 {
			id := g.proposals[rng.Intn(len(g.proposals))]
			opt := []govv1.VoteOption{govv1.OptionYes, govv1.OptionYes, govv1.OptionNo, govv1.OptionNoWithVeto, govv1.OptionAbstain}[rng.Intn(5)]
			voter := a
			if rng.Intn(2) == 0 { // validators carry the weight
				v := n.Vals[rng.Intn(len(n.Vals))]
				if !g.usedInBlk[v.Oper.Addr.String()] {
					g.usedInBlk[v.Oper.Addr.String()] = true
					voter = v.Oper
				}
			}
			g.cosmos("gov.vote", voter, govv1.NewMsgVote(voter.Addr, id, opt, ""))
		}
	case f == 19:
		exp := n.Time.Add(time.Hour)
		grant, err := authz.NewMsgGrant(a.Addr, b.Addr, authz.NewGenericAuthorization(sdk.MsgTypeURL(&banktypes.MsgSend{})), &exp)
		if err == nil && !a.Addr.Equals(b.Addr) {
			if g.cosmos("authz.grant", a, grant) && !g.usedInBlk[b.Addr.String()] {
				g.usedInBlk[b.Addr.String()] = true
				ex := authz.NewMsgExec(b.Addr, []sdk.Msg{banktypes.NewMsgSend(a.Addr, b.Addr, sdk.NewCoins(amt(2)))})
				g.cosmos("authz.exec", b, &ex)
			}
		}
	case f == 20:
		if !a.Addr.Equals(b.Addr) {
			al, err := feegrant.NewMsgGrantAllowance(&feegrant.BasicAllowance{}, a.Addr, b.Addr)
			if err == nil {
				g.cosmos("feegrant.grant", a, al)
			}
		}
	case f == 21 || f == 22: // vesting
		switch {
		case len(g.vestAccs) < 3:
			v := g.freshAcc()
			lock := sdkvesting.Periods{{Length: int64(rng.Intn(200) + 20), Amount: sdk.NewCoins(amt(4000))}, {Length: int64(rng.Intn(4000)+20) + int64(rng.Intn(2))*20_000_000, Amount: sdk.NewCoins(amt(4000))}}
			vest := sdkvesting.Periods{{Length: int64(rng.Intn(30) + 1), Amount: lock.TotalAmount()}}
			if g.cosmos("vesting.create", a, vestingtypes.NewMsgCreateClawbackVestingAccount(a.Addr, v.Addr, n.Time.Add(-time.Duration(rng.Intn(50))*time.Second).UTC(), lock, vest, false)) {
				g.vestAccs = append(g.vestAccs, v)
				g.vestFunder[v.Addr.String()] = a
				// gas money
				g.cosmos("bank.send", a, banktypes.NewMsgSend(a.Addr, v.Addr, sdk.NewCoins(sdk.NewCoin(vn.Denom, sdkmath.NewIntWithDecimal(50, 18)))))
			}
		default:
			v := g.vestAccs[rng.Intn(len(g.vestAccs))]
			fu := g.vestFunder[v.Addr.String()]
			switch rng.Intn(3) {
			case 0:
				lock := sdkvesting.Periods{{Length: int64(rng.Intn(500) + 20), Amount: sdk.NewCoins(amt(100))}}
				if !g.usedInBlk[fu.Addr.String()] {
					g.usedInBlk[fu.Addr.String()] = true
					g.cosmos("vesting.merge", fu, vestingtypes.NewMsgCreateClawbackVestingAccount(fu.Addr, v.Addr, n.Time.UTC(), lock, lock, true))
				}
			case 1:
				if rng.Intn(6) == 0 && !g.usedInBlk[fu.Addr.String()] {
					g.usedInBlk[fu.Addr.String()] = true
					g.cosmos("vesting.clawback", fu, vestingtypes.NewMsgClawback(fu.Addr, v.Addr, nil))
				}
			default:
				// the holder spends / delegates (guards of C08 get exercised too)
				if !g.usedInBlk[v.Addr.String()] {
					g.usedInBlk[v.Addr.String()] = true
					g.cosmos("vesting.holder-delegate", v, stakingtypes.NewMsgDelegate(v.Addr, val.ValAddr, amt(5)))
				}
			}
		}
	case f == 23 || f == 24 || f == 46 || f == 47: // liquid vesting
		if len(g.vestAccs) > 0 && rng.Intn(2) == 0 && f < 46 {
			v := g.vestAccs[rng.Intn(len(g.vestAccs))]
			if !g.usedInBlk[v.Addr.String()] {
				g.usedInBlk[v.Addr.String()] = true
				cnt := n.App.LiquidVestingKeeper.GetDenomCounter(n.Ctx())
				if g.cosmos("liquidvesting.liquidate", v, lvtypes.NewMsgLiquidate(v.Addr, v.Addr, amt(200))) {
					g.liquid = append(g.liquid, lvtypes.DenomBaseNameFromID(cnt))
					g.constr["token-pair-registered"]++
				}
			}
		} else if len(g.liquid) > 0 && len(g.vestAccs) > 0 && (f >= 46 || rng.Intn(3) == 0) {
			// the newest liquid denom is redeemed completely by its holder (the denom is deleted, the counter stays)
			d := g.liquid[len(g.liquid)-1]
			for _, v := range g.vestAccs {
				bal := n.Balance(v.Addr, d)
				// liquid tokens are handed out in their ERC20 form; Redeem converts back what it needs
				if pair, ok := n.App.Erc20Keeper.GetTokenPair(n.Ctx(), n.App.Erc20Keeper.GetTokenPairID(n.Ctx(), d)); ok {
					if tb := n.App.Erc20Keeper.BalanceOf(n.Ctx(), erc20ABI(), pair.GetERC20Contract(), v.Eth); tb != nil {
						bal = bal.Add(sdkmath.NewIntFromBigInt(tb))
					}
				}
				if bal.IsPositive() && !g.usedInBlk[v.Addr.String()] {
					g.usedInBlk[v.Addr.String()] = true
					if g.cosmos("liquidvesting.redeem-everything", v, lvtypes.NewMsgRedeem(v.Addr, v.Addr, sdk.NewCoin(d, bal))) {
						if n.Supply(d).IsZero() {
							g.constr["liquid-denom-fully-redeemed"]++
							g.liquid = g.liquid[:len(g.liquid)-1]
						}
					}
					break
				}
			}
		} else if len(g.liquid) > 0 {
			d := g.liquid[rng.Intn(len(g.liquid))]
			v := g.vestAccs[rng.Intn(len(g.vestAccs))]
			if !g.usedInBlk[v.Addr.String()] {
				g.usedInBlk[v.Addr.String()] = true
				to := b.Addr
				fam := "liquidvesting.redeem"
				if len(g.contracts) > 0 && rng.Intn(3) == 0 {
					to, fam = sdk.AccAddress(g.contracts[rng.Intn(len(g.contracts))].Bytes()), "liquidvesting.redeem-into-contract"
				}
				if g.cosmos(fam, v, lvtypes.NewMsgRedeem(v.Addr, to, sdk.NewCoin(d, unit.MulRaw(int64(rng.Intn(20)+1))))) && fam != "liquidvesting.redeem" {
					g.constr["vesting-account-that-is-a-contract"]++
				}
			}
		}
	case f == 25 || f == 26: // DAO
		if len(g.liquid) > 0 && len(g.vestAccs) > 0 && rng.Intn(2) == 0 {
			// a holder of a liquid denom funds the DAO with two denominations at once (the liquid
			// tokens are handed out as ERC20: they are converted to coins first)
			d := g.liquid[rng.Intn(len(g.liquid))]
			v := g.vestAccs[rng.Intn(len(g.vestAccs))]
			if g.usedInBlk[v.Addr.String()] {
				break
			}
			g.usedInBlk[v.Addr.String()] = true
			if bal := n.Balance(v.Addr, d); bal.IsPositive() {
				x := sdkmath.MinInt(bal, unit.MulRaw(int64(rng.Intn(5)+1)))
				if g.cosmos("dao.fund-two-denoms", v, ucdaotypes.NewMsgFund(sdk.NewCoins(sdk.NewCoin(vn.Denom, sdkmath.NewInt(int64(rng.Intn(5000)+1))), sdk.NewCoin(d, x)), v.Addr)) {
					g.constr["dao-holder-with-several-denoms"]++
				}
			} else if pair, ok := n.App.Erc20Keeper.GetTokenPair(n.Ctx(), n.App.Erc20Keeper.GetTokenPairID(n.Ctx(), d)); ok {
				g.cosmos("erc20.convert-erc20", v, erc20types.NewMsgConvertERC20(unit.MulRaw(int64(rng.Intn(9)+2)), v.Addr, pair.GetERC20Contract(), v.Eth))
			}
			break
		}
		switch rng.Intn(3) {
		case 0:
			g.cosmos("dao.fund", a, ucdaotypes.NewMsgFund(sdk.NewCoins(amt(50)), a.Addr))
		case 1:
			g.cosmos("dao.transfer-ratio", a, ucdaotypes.NewMsgTransferOwnershipWithRatio(a.Addr, b.Addr, sdk.NewDecWithPrec(int64(rng.Intn(99)+1), 2)))
		default:
			g.cosmos("dao.transfer-all", a, ucdaotypes.NewMsgTransferOwnership(a.Addr, b.Addr))
		}
	case f == 27: // ERC20 conversions on liquid pairs
		if len(g.liquid) > 0 && len(g.vestAccs) > 0 {
			d := g.liquid[rng.Intn(len(g.liquid))]
			v := g.vestAccs[rng.Intn(len(g.vestAccs))]
			id := n.App.Erc20Keeper.GetTokenPairID(n.Ctx(), d)
			if pair, ok := n.App.Erc20Keeper.GetTokenPair(n.Ctx(), id); ok && !g.usedInBlk[v.Addr.String()] {
				g.usedInBlk[v.Addr.String()] = true
				if k := rng.Intn(4); k >= 2 {
					// bank MsgSend of a denom that has a token pair: Haqq's wrapper converts what the sender holds as ERC20
					if g.cosmos("bank.send-paired-denom", v, banktypes.NewMsgSend(v.Addr, b.Addr, sdk.NewCoins(sdk.NewCoin(d, unit.MulRaw(int64(rng.Intn(9)+1)))))) {
						g.constr["bank-send-of-a-paired-denom"]++
					}
				} else if k == 0 {
					g.cosmos("erc20.convert-erc20", v, erc20types.NewMsgConvertERC20(unit.MulRaw(int64(rng.Intn(9)+1)), v.Addr, pair.GetERC20Contract(), v.Eth))
				} else {
					g.cosmos("erc20.convert-coin", v, erc20types.NewMsgConvertCoin(sdk.NewCoin(d, unit.MulRaw(int64(rng.Intn(9)+1))), v.Eth, v.Addr))
				}
			}
		}
	case f < 32 && f != 28: // EVM: deploy and call generated programs
		if len(g.contracts) < 6 || rng.Intn(4) == 0 {
			nf := 0
			p := genProg(rng, 3, []common.Address{b.Eth, n.Accounts[0].Eth}, func() common.Address { nf++; return g.freshAcc().Eth })
			g.tried["evm.deploy"]++
			if _, err := deployProg(n, a, p); err == nil {
				g.ok["evm.deploy"]++
				g.contracts = append(g.contracts, p.addr)
			}
		} else {
			c := g.contracts[rng.Intn(len(g.contracts))]
			if ok, _ := g.eth("evm.call", a, &c, int64(rng.Intn(100)), []byte{1}, uint64(300000+rng.Intn(1500000))); ok {
				g.constr["storage-and-calls"]++
			}
		}
	case f == 32: // one tx that creates two new accounts through the EVM
		x, y := g.freshAcc(), g.freshAcc()
		init := evmasm.InitCode([]evmasm.Step{evmasm.CallStep{Kind: evmasm.Call, To: x.Eth, Value: big.NewInt(5), Fail: evmasm.Ignore}, evmasm.CallStep{Kind: evmasm.Call, To: y.Eth, Value: big.NewInt(6), Fail: evmasm.Ignore}}, []evmasm.Step{evmasm.Stop{}})
		if ok, _ := g.eth("evm.two-new-accounts", a, nil, 100, init, 800000); ok {
			g.constr["two-new-accounts-in-one-tx(evm)"]++
		}
	case f == 33 || f == 34: // precompiles through forwarders
		name := []string{"staking", "distribution"}[rng.Intn(2)]
		pc := map[string]common.Address{"staking": addrStaking, "distribution": addrDist}[name]
		fw, have := g.forwarders[name]
		if !have {
			addr, res := n.Deploy(a, evmasm.InitCode(nil, []evmasm.Step{evmasm.Forward{Kind: evmasm.Call, To: pc, Fail: evmasm.Ignore, Record: 1}}), big.NewInt(1000))
			g.tried["evm.deploy"]++
			if res.Code == 0 {
				g.ok["evm.deploy"]++
				g.forwarders[name] = addr
			}
			return
		}
		stk, dst := histABIs(n)
		var data []byte
		direct := rng.Intn(2) == 0
		if name == "staking" {
			data, _ = stk.Pack("delegate", a.Eth, val.ValAddr.String(), unit.MulRaw(int64(rng.Intn(9)+1)).BigInt())
			if !direct {
				ap, _ := stk.Pack("approve", fw, unit.MulRaw(100000).BigInt(), []string{stakingDelegateMsg})
				to := addrStaking
				g.eth("precompile.approve", a, &to, 0, ap, 600000)
			}
		} else {
			data, _ = dst.Pack("claimRewards", a.Eth, uint32(5))
		}
		to := fw
		if direct {
			to = pc
		}
		if ok, _ := g.eth("precompile."+name, a, &to, 0, data, 1_500_000); ok {
			g.constr["precompile-call"]++
		}
	case f == 35: // unjail
		for v := range g.n.Vals {
			if val, found := n.App.StakingKeeper.GetValidator(n.Ctx(), n.Vals[v].ValAddr); found && val.Jailed && !n.Absent[v] && !g.usedInBlk[n.Vals[v].Oper.Addr.String()] {
				g.usedInBlk[n.Vals[v].Oper.Addr.String()] = true
				g.cosmos("slashing.unjail", n.Vals[v].Oper, &slashingMsgUnjail{ValidatorAddr: n.Vals[v].ValAddr.String()})
				break
			}
		}
	case f == 38: // a vesting schedule applied to the address a contract is about to be created at
		d := g.acct()
		target := vn.CreateAddress(d.Eth, n.EthNonce(d.Eth))
		lock := sdkvesting.Periods{{Length: int64(rng.Intn(5000) + 100), Amount: sdk.NewCoins(amt(10))}}
		if g.cosmos("vesting.convert-future-contract-address", a, vestingtypes.NewMsgConvertIntoVestingAccount(a.Addr, sdk.AccAddress(target.Bytes()), n.Time.UTC(), lock, lock, false, false, nil)) {
			p := genProg(rng, 1, []common.Address{b.Eth}, func() common.Address { return g.freshAcc().Eth })
			g.tried["evm.deploy"]++
			if _, err := deployProg(n, d, p); err == nil {
				g.ok["evm.deploy"]++
				g.contracts = append(g.contracts, p.addr)
				g.constr["vesting-account-that-is-a-contract"]++
			}
		}
	case f == 39: // a program using PUSH0 (EIP-3855, switched by the extra-EIPs parameter)
		init := evmasm.InitCode([]evmasm.Step{evmasm.Raw{Code: []byte{0x5f, 0x50}}, evmasm.SStore{Slot: 1, Val: 1}}, []evmasm.Step{evmasm.Stop{}})
		g.eth("evm.push0", a, nil, 0, init, 400000)
	case f == 28: // fees paid out of unclaimed staking rewards (several delegations)
		if len(g.poor) < 2 {
			p := g.freshAcc()
			feeAmt := sdkmath.NewIntFromBigInt(new(big.Int).Mul(g.price(), big.NewInt(3_000_000)))
			fund := sdkmath.NewIntWithDecimal(30, 18).Add(feeAmt.MulRaw(2))
			if g.cosmos("bank.send", a, banktypes.NewMsgSend(a.Addr, p.Addr, sdk.NewCoins(sdk.NewCoin(vn.Denom, fund)))) {
				var msgs []sdk.Msg
				for v := 0; v < 3 && v < len(n.Vals); v++ {
					msgs = append(msgs, stakingtypes.NewMsgDelegate(p.Addr, n.Vals[v].ValAddr, sdk.NewCoin(vn.Denom, sdkmath.NewIntWithDecimal(10, 18))))
				}
				if g.cosmos("staking.delegate-all(poor)", p, msgs...) {
					g.poor = append(g.poor, p)
				}
			}
		} else {
			p := g.poor[rng.Intn(len(g.poor))]
			if !g.usedInBlk[p.Addr.String()] {
				g.usedInBlk[p.Addr.String()] = true
				liquid := n.Balance(p.Addr, vn.Denom)
				if rng.Intn(2) == 0 {
					if g.cosmos("fee-from-staking-rewards(cosmos)", p, banktypes.NewMsgSend(p.Addr, b.Addr, vn.Coins(1))) && liquid.LT(sdkmath.NewIntFromBigInt(new(big.Int).Mul(g.price(), big.NewInt(3_000_000)))) {
						g.constr["fee-paid-from-staking-rewards"]++
					}
				} else {
					to := b.Eth
					if ok, _ := g.eth("fee-from-staking-rewards(eth)", p, &to, 0, nil, 21000+uint64(rng.Intn(1_000_000))); ok {
						g.constr["fee-paid-from-staking-rewards"]++
					}
				}
			}
		}
	case f == 36: // deliberately invalid: bad nonce
		to := b.Eth
		p := g.price()
		n.Deliver(n.EthTx(a, vn.EthArgs{Nonce: n.EthNonce(a.Eth) + 7, To: &to, Gas: 21000, GasPrice: p}))
		g.ok["invalid.bad-nonce"]++
	case f == 37: // deliberately invalid: Ethereum message on the Cosmos route
		to := b.Eth
		tx := n.SignEth(a, vn.EthArgs{Nonce: n.EthNonce(a.Eth), To: &to, Gas: 21000, GasPrice: g.price()})
		msg := mustEthMsg(tx)
		n.Deliver(n.CosmosTx(vn.CosmosArgs{Msgs: []sdk.Msg{msg}, Gas: 100000, Fee: vn.Coins(100000)}, a))
		g.ok["invalid.blocked-route"]++
	default:
		// plain value transfer to a fresh address
		x := g.freshAcc().Eth
		g.eth("evm.transfer", a, &x, int64(rng.Intn(1000)+1), nil, 21000)
	}
}

// ibcTx: one step of real IBC traffic over a loopback channel pair.
func (g *histGen) ibcTx(a, b vn.Account) {
	n, rng := g.n, g.rng
	ph := clienttypes.NewHeight(1, uint64(n.Height))
	s := a.Addr.String()
	if g.lbA == "" {
		next := func() string {
			return channeltypes.FormatChannelIdentifier(n.App.IBCKeeper.ChannelKeeper.GetNextChannelSequence(n.Ctx()))
		}
		ca := next()
		if !g.cosmos("ibc.chan-open-init", a, channeltypes.NewMsgChannelOpenInit("transfer", transfertypes.Version, channeltypes.UNORDERED, []string{vn.LocalConn}, "transfer", s)) {
			return
		}
		cb := next()
		if !g.cosmos("ibc.chan-open-try", a, channeltypes.NewMsgChannelOpenTry("transfer", transfertypes.Version, channeltypes.UNORDERED, []string{vn.LocalConn}, "transfer", ca, transfertypes.Version, localhost.SentinelProof, ph, s)) {
			return
		}
		if !g.cosmos("ibc.chan-open-ack", a, channeltypes.NewMsgChannelOpenAck("transfer", ca, cb, transfertypes.Version, localhost.SentinelProof, ph, s)) {
			return
		}
		if g.cosmos("ibc.chan-open-confirm", a, channeltypes.NewMsgChannelOpenConfirm("transfer", cb, localhost.SentinelProof, ph, s)) {
			g.lbA, g.lbB = ca, cb
			g.constr["ibc-loopback-channel-opened"]++
		}
		return
	}
	unit := sdkmath.NewInt(1_000_000_000_000_000)
	switch k := rng.Intn(8); {
	case k < 3: // send: native coin out on A, or a voucher back home on B
		ch, coin := g.lbA, sdk.NewCoin(vn.Denom, unit.MulRaw(int64(rng.Intn(50)+1)))
		voucher := transfertypes.ParseDenomTrace("transfer/" + g.lbB + "/" + vn.Denom).IBCDenom()
		if vb := n.Balance(a.Addr, voucher); vb.IsPositive() && rng.Intn(2) == 0 {
			ch, coin = g.lbB, sdk.NewCoin(voucher, sdkmath.NewIntFromBigInt(new(big.Int).Rand(rng, vb.BigInt())).AddRaw(1))
		}
		th, ts := clienttypes.NewHeight(1, 10_000_000), uint64(0)
		if rng.Intn(3) == 0 {
			th, ts = clienttypes.ZeroHeight(), uint64(n.Time.Add(time.Duration(rng.Intn(20)+1)*time.Second).UnixNano())
		}
		recv := b.Addr.String()
		if rng.Intn(8) == 0 {
			recv = "not-an-address"
		}
		if rng.Intn(3) == 0 && ch == g.lbA {
			ics := n.App.EvmKeeper.Precompiles(addrICS20)[addrICS20].(*ics20pc.Precompile).ABI
			data, err := ics.Pack("transfer", "transfer", ch, coin.Denom, coin.Amount.BigInt(), a.Eth, recv, th, ts, "memo")
			if err != nil {
				return
			}
			to := addrICS20
			if ok, res := g.eth("ibc.transfer(ics20-precompile)", a, &to, 0, data, 600_000); ok {
				if pkt, found := vn.PacketFromEvents(res.Events); found {
					g.ibcPending = append(g.ibcPending, pkt)
				}
			}
			return
		}
		if g.cosmos("ibc.transfer", a, transfertypes.NewMsgTransfer("transfer", ch, coin, s, recv, th, ts, "")) {
			if pkt, found := vn.PacketFromEvents(g.lastRes.Events); found {
				g.ibcPending = append(g.ibcPending, pkt)
			}
		}
	case k < 5: // relay
		if len(g.ibcPending) == 0 {
			return
		}
		i := rng.Intn(len(g.ibcPending))
		pkt := g.ibcPending[i]
		if g.cosmos("ibc.recv-packet", a, channeltypes.NewMsgRecvPacket(pkt, localhost.SentinelProof, ph, s)) {
			g.ibcPending = append(g.ibcPending[:i], g.ibcPending[i+1:]...)
			if ack, found := vn.AckFromEvents(g.lastRes.Events); found {
				g.ibcRecvd = append(g.ibcRecvd, ibcRecvd{pkt, ack})
				if strings.Contains(string(ack), "error") {
					g.constr["ibc-error-acknowledgement"]++
				}
			}
		}
	case k < 7:
		if len(g.ibcRecvd) == 0 {
			return
		}
		i := rng.Intn(len(g.ibcRecvd))
		r := g.ibcRecvd[i]
		if g.cosmos("ibc.acknowledge-packet", a, channeltypes.NewMsgAcknowledgement(r.pkt, r.ack, localhost.SentinelProof, ph, s)) {
			g.ibcRecvd = append(g.ibcRecvd[:i], g.ibcRecvd[i+1:]...)
		}
	default:
		for i, pkt := range g.ibcPending {
			if pkt.TimeoutTimestamp != 0 && uint64(n.Time.UnixNano()) >= pkt.TimeoutTimestamp {
				if g.cosmos("ibc.timeout-packet", a, channeltypes.NewMsgTimeout(pkt, 1, localhost.SentinelProof, ph, s)) {
					g.ibcPending = append(g.ibcPending[:i], g.ibcPending[i+1:]...)
					g.constr["ibc-timeout-refund"]++
				}
				return
			}
		}
	}
}

func (g *histGen) families() int {
	c := 0
	for _, v := range g.ok {
		if v > 0 {
			c++
		}
	}
	return c
}
