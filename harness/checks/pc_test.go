//go:build verif

package checks

import (
	"fmt"
	"math/big"
	"math/rand"
	"sort"
	"time"

	sdkmath "cosmossdk.io/math"
	abci "github.com/cometbft/cometbft/abci/types"
	sdk "github.com/cosmos/cosmos-sdk/types"
	authtypes "github.com/cosmos/cosmos-sdk/x/auth/types"
	banktypes "github.com/cosmos/cosmos-sdk/x/bank/types"
	distrtypes "github.com/cosmos/cosmos-sdk/x/distribution/types"
	stakingtypes "github.com/cosmos/cosmos-sdk/x/staking/types"
	"github.com/ethereum/go-ethereum/accounts/abi"
	"github.com/ethereum/go-ethereum/common"

	bankpc "github.com/haqq-network/haqq/precompiles/bank"
	distpc "github.com/haqq-network/haqq/precompiles/distribution"
	ics20pc "github.com/haqq-network/haqq/precompiles/ics20"
	stakingpc "github.com/haqq-network/haqq/precompiles/staking"

	"verif/harness/evmasm"
	"verif/harness/report"
	"verif/harness/vn"
)

var (
	addrStaking = common.HexToAddress(stakingpc.PrecompileAddress)
	addrDist    = common.HexToAddress("0x0000000000000000000000000000000000000801")
	addrICS20   = common.HexToAddress("0x0000000000000000000000000000000000000802")
	addrBank    = common.HexToAddress("0x0000000000000000000000000000000000000804")
)

type pcEnv struct {
	n                                      *vn.Node
	abiStaking, abiDist, abiICS20, abiBank abi.ABI
	deployer                               vn.Account
	feeColl                                sdk.AccAddress
}

func mustABI(a abi.ABI, err error) abi.ABI {
	vn.Must(err)
	return a
}

const stakeUnit = 1_000_000_000_000_000 // 0.001 ISLM

// newPcEnv builds a chain with three validators, delegations and unbonding entries of
// accounts 0..3, accrued rewards and commission, and a funded deployer.
func newPcEnv(seed uint64, rng *rand.Rand) *pcEnv {
	n := vn.New(vn.Config{Seed: seed, NumVals: 3, NumAccounts: 9})
	e := &pcEnv{n: n, deployer: n.Accounts[8], feeColl: authtypes.NewModuleAddress(authtypes.FeeCollectorName)}
	e.abiStaking = mustABI(stakingpc.LoadABI())
	pcs := n.App.EvmKeeper.Precompiles(addrDist, addrICS20, addrBank)
	e.abiDist = pcs[addrDist].(*distpc.Precompile).ABI
	e.abiICS20 = pcs[addrICS20].(*ics20pc.Precompile).ABI
	e.abiBank = pcs[addrBank].(*bankpc.Precompile).ABI
	// block 1: delegations
	n.BeginBlock(vn.BlockOpts{})
	for i := 0; i < 4; i++ {
		a := n.Accounts[i]
		var msgs []sdk.Msg
		for v := 0; v < 2; v++ {
			msgs = append(msgs, stakingtypes.NewMsgDelegate(a.Addr, n.Vals[(i+v)%3].ValAddr, sdk.NewCoin(vn.Denom, sdkmath.NewInt(stakeUnit*int64(500+rng.Intn(500))))))
		}
		e.mustCosmos(a, msgs...)
	}
	n.EndBlock()
	n.Commit()
	// blocks with fee traffic so that rewards and commission accrue; an unbonding entry per account
	for b := 0; b < 3; b++ {
		n.BeginBlock(vn.BlockOpts{Dt: 2 * time.Second})
		for i := 4; i < 7; i++ {
			a := n.Accounts[i]
			n.Deliver(n.CosmosTx(vn.CosmosArgs{Msgs: []sdk.Msg{banktypes.NewMsgSend(a.Addr, n.Accounts[7].Addr, vn.Coins(1))}, Gas: 200000, Fee: vn.CoinsI(sdkmath.NewInt(200000).MulRaw(int64(1_000_000_000 + rng.Intn(1000))))}, a))
		}
		if b == 1 {
			for i := 0; i < 4; i++ {
				a := n.Accounts[i]
				e.mustCosmos(a, stakingtypes.NewMsgUndelegate(a.Addr, n.Vals[i%3].ValAddr, sdk.NewCoin(vn.Denom, sdkmath.NewInt(stakeUnit*50))))
			}
		}
		n.EndBlock()
		n.Commit()
	}
	n.BeginBlock(vn.BlockOpts{Dt: 2 * time.Second})
	return e
}

func (e *pcEnv) mustCosmos(a vn.Account, msgs ...sdk.Msg) abci.ResponseDeliverTx {
	res := e.n.Deliver(e.n.CosmosTx(vn.CosmosArgs{Msgs: msgs, Gas: 3_000_000, Fee: vn.Coins(3_000_000)}, a))
	if res.Code != 0 {
		panic("setup tx failed: " + res.Log)
	}
	return res
}

// nextBlock closes the block and opens a new one (some fee traffic keeps rewards flowing).
func (e *pcEnv) nextBlock() {
	n := e.n
	n.EndBlock()
	n.Commit()
	n.BeginBlock(vn.BlockOpts{Dt: 2 * time.Second})
	a := n.Accounts[6]
	n.Deliver(n.CosmosTx(vn.CosmosArgs{Msgs: []sdk.Msg{banktypes.NewMsgSend(a.Addr, n.Accounts[7].Addr, vn.Coins(1))}, Gas: 200000, Fee: vn.CoinsI(sdkmath.NewInt(200000).MulRaw(1_000_000_000))}, a))
}

// balances of every account that has one, in the native denom, plus the total supply.
func (e *pcEnv) balances() (map[string]sdkmath.Int, sdkmath.Int) {
	out := map[string]sdkmath.Int{}
	ctx := e.n.Ctx()
	e.n.App.BankKeeper.IterateAllBalances(ctx, func(a sdk.AccAddress, c sdk.Coin) bool {
		if c.Denom == vn.Denom {
			out[common.BytesToAddress(a).Hex()] = c.Amount
		}
		return false
	})
	return out, e.n.App.BankKeeper.GetSupply(ctx, vn.Denom).Amount
}

func balDelta(before, after map[string]sdkmath.Int) map[string]sdkmath.Int {
	out := map[string]sdkmath.Int{}
	for k, v := range after {
		b, ok := before[k]
		if !ok {
			b = sdkmath.ZeroInt()
		}
		if !v.Equal(b) {
			out[k] = v.Sub(b)
		}
	}
	for k, b := range before {
		if _, ok := after[k]; !ok && !b.IsZero() {
			out[k] = b.Neg()
		}
	}
	return out
}

func deltaStr(d map[string]sdkmath.Int, names map[string]string) string {
	var ks []string
	for k := range d {
		ks = append(ks, k)
	}
	sort.Strings(ks)
	s := ""
	for _, k := range ks {
		nm := names[k]
		if nm == "" {
			nm = k[:10]
		}
		s += fmt.Sprintf("%s:%s ", nm, d[k])
	}
	return s
}

// nativeBankEffect executes msg through the message router on a cache branch of the
// current block state and returns the bank balance deltas it causes (nil, err if it fails).
func (e *pcEnv) nativeBankEffect(msg sdk.Msg) (map[string]sdkmath.Int, error) {
	ctx := e.n.Ctx()
	cctx, _ := ctx.CacheContext()
	cctx = cctx.WithGasMeter(sdk.NewInfiniteGasMeter())
	before := map[string]sdkmath.Int{}
	e.n.App.BankKeeper.IterateAllBalances(cctx, func(a sdk.AccAddress, c sdk.Coin) bool {
		if c.Denom == vn.Denom {
			before[common.BytesToAddress(a).Hex()] = c.Amount
		}
		return false
	})
	h := e.n.App.MsgServiceRouter().Handler(msg)
	if h == nil {
		return nil, fmt.Errorf("no handler")
	}
	if _, err := h(cctx, msg); err != nil {
		return nil, err
	}
	after := map[string]sdkmath.Int{}
	e.n.App.BankKeeper.IterateAllBalances(cctx, func(a sdk.AccAddress, c sdk.Coin) bool {
		if c.Denom == vn.Denom {
			after[common.BytesToAddress(a).Hex()] = c.Amount
		}
		return false
	})
	return balDelta(before, after), nil
}

func (e *pcEnv) names(extra map[string]string) map[string]string {
	m := map[string]string{}
	for i, a := range e.n.Accounts {
		m[a.Eth.Hex()] = fmt.Sprintf("acc%d", i)
	}
	for i, v := range e.n.Vals {
		m[v.Oper.Eth.Hex()] = fmt.Sprintf("oper%d", i)
	}
	for _, mod := range []string{authtypes.FeeCollectorName, distrtypes.ModuleName, stakingtypes.BondedPoolName, stakingtypes.NotBondedPoolName, "evm", "erc20", "transfer"} {
		m[common.BytesToAddress(authtypes.NewModuleAddress(mod)).Hex()] = "mod:" + mod
	}
	for k, v := range extra {
		m[k] = v
	}
	return m
}

// ---- method catalogue -------------------------------------------------------------

type pcMethod struct {
	name   string
	pc     common.Address
	authz  string // staking authorization method string for approve(), "" if none needed
	pack   func(e *pcEnv, who common.Address, rng *rand.Rand) ([]byte, sdk.Msg)
	stakes bool // needs an existing delegation of `who`
}

func pcMethods() []pcMethod {
	val := func(e *pcEnv, who common.Address, k int) string {
		// a validator `who` is delegated to: accounts i delegate to vals i%3 and (i+1)%3
		dels := e.n.App.StakingKeeper.GetDelegatorDelegations(e.n.Ctx(), who.Bytes(), 10)
		if len(dels) == 0 {
			return e.n.Vals[0].ValAddr.String()
		}
		return dels[k%len(dels)].ValidatorAddress
	}
	return []pcMethod{
		{name: "delegate", pc: addrStaking, authz: stakingpc.DelegateMsg, pack: func(e *pcEnv, who common.Address, rng *rand.Rand) ([]byte, sdk.Msg) {
			v := e.n.Vals[rng.Intn(3)].ValAddr.String()
			amt := big.NewInt(stakeUnit * int64(1+rng.Intn(20)))
			bz, err := e.abiStaking.Pack("delegate", who, v, amt)
			vn.Must(err)
			return bz, &stakingtypes.MsgDelegate{DelegatorAddress: sdk.AccAddress(who.Bytes()).String(), ValidatorAddress: v, Amount: sdk.NewCoin(vn.Denom, sdkmath.NewIntFromBigInt(amt))}
		}},
		{name: "undelegate", pc: addrStaking, authz: stakingpc.UndelegateMsg, stakes: true, pack: func(e *pcEnv, who common.Address, rng *rand.Rand) ([]byte, sdk.Msg) {
			v := val(e, who, rng.Intn(2))
			amt := big.NewInt(stakeUnit * int64(1+rng.Intn(5)))
			bz, err := e.abiStaking.Pack("undelegate", who, v, amt)
			vn.Must(err)
			return bz, &stakingtypes.MsgUndelegate{DelegatorAddress: sdk.AccAddress(who.Bytes()).String(), ValidatorAddress: v, Amount: sdk.NewCoin(vn.Denom, sdkmath.NewIntFromBigInt(amt))}
		}},
		{name: "redelegate", pc: addrStaking, authz: stakingpc.RedelegateMsg, stakes: true, pack: func(e *pcEnv, who common.Address, rng *rand.Rand) ([]byte, sdk.Msg) {
			src := val(e, who, 0)
			dst := ""
			for _, v := range e.n.Vals {
				if v.ValAddr.String() != src {
					dst = v.ValAddr.String()
				}
			}
			amt := big.NewInt(stakeUnit * int64(1+rng.Intn(5)))
			bz, err := e.abiStaking.Pack("redelegate", who, src, dst, amt)
			vn.Must(err)
			return bz, &stakingtypes.MsgBeginRedelegate{DelegatorAddress: sdk.AccAddress(who.Bytes()).String(), ValidatorSrcAddress: src, ValidatorDstAddress: dst, Amount: sdk.NewCoin(vn.Denom, sdkmath.NewIntFromBigInt(amt))}
		}},
		{name: "cancelUnbondingDelegation", pc: addrStaking, authz: stakingpc.CancelUnbondingDelegationMsg, stakes: true, pack: func(e *pcEnv, who common.Address, rng *rand.Rand) ([]byte, sdk.Msg) {
			ubds := e.n.App.StakingKeeper.GetAllUnbondingDelegations(e.n.Ctx(), who.Bytes())
			v, h, amt := e.n.Vals[0].ValAddr.String(), int64(1), big.NewInt(1)
			if len(ubds) > 0 && len(ubds[0].Entries) > 0 {
				v, h = ubds[0].ValidatorAddress, ubds[0].Entries[0].CreationHeight
				amt = big.NewInt(stakeUnit * int64(1+rng.Intn(3)))
			}
			bz, err := e.abiStaking.Pack("cancelUnbondingDelegation", who, v, amt, big.NewInt(h))
			vn.Must(err)
			return bz, &stakingtypes.MsgCancelUnbondingDelegation{DelegatorAddress: sdk.AccAddress(who.Bytes()).String(), ValidatorAddress: v, Amount: sdk.NewCoin(vn.Denom, sdkmath.NewIntFromBigInt(amt)), CreationHeight: h}
		}},
		{name: "withdrawDelegatorRewards", pc: addrDist, stakes: true, pack: func(e *pcEnv, who common.Address, rng *rand.Rand) ([]byte, sdk.Msg) {
			v := val(e, who, rng.Intn(2))
			bz, err := e.abiDist.Pack("withdrawDelegatorRewards", who, v)
			vn.Must(err)
			return bz, &distrtypes.MsgWithdrawDelegatorReward{DelegatorAddress: sdk.AccAddress(who.Bytes()).String(), ValidatorAddress: v}
		}},
		{name: "claimRewards", pc: addrDist, stakes: true, pack: func(e *pcEnv, who common.Address, rng *rand.Rand) ([]byte, sdk.Msg) {
			bz, err := e.abiDist.Pack("claimRewards", who, uint32(10))
			vn.Must(err)
			// native equivalent: one withdraw per validator (handled by the caller through multi)
			return bz, nil
		}},
		{name: "setWithdrawAddress", pc: addrDist, pack: func(e *pcEnv, who common.Address, rng *rand.Rand) ([]byte, sdk.Msg) {
			w := e.n.Accounts[7].Addr
			bz, err := e.abiDist.Pack("setWithdrawAddress", who, w.String())
			vn.Must(err)
			return bz, &distrtypes.MsgSetWithdrawAddress{DelegatorAddress: sdk.AccAddress(who.Bytes()).String(), WithdrawAddress: w.String()}
		}},
	}
}

// claimNative lists the native messages equivalent to claimRewards(who).
func (e *pcEnv) claimNative(who common.Address) []sdk.Msg {
	var out []sdk.Msg
	for _, d := range e.n.App.StakingKeeper.GetDelegatorDelegations(e.n.Ctx(), who.Bytes(), 10) {
		out = append(out, &distrtypes.MsgWithdrawDelegatorReward{DelegatorAddress: sdk.AccAddress(who.Bytes()).String(), ValidatorAddress: d.ValidatorAddress})
	}
	return out
}

// nativeEffects runs several native messages one after another on one cache branch.
func (e *pcEnv) nativeEffects(msgs []sdk.Msg) (map[string]sdkmath.Int, error) {
	ctx := e.n.Ctx()
	cctx, _ := ctx.CacheContext()
	cctx = cctx.WithGasMeter(sdk.NewInfiniteGasMeter())
	snap := func() map[string]sdkmath.Int {
		m := map[string]sdkmath.Int{}
		e.n.App.BankKeeper.IterateAllBalances(cctx, func(a sdk.AccAddress, c sdk.Coin) bool {
			if c.Denom == vn.Denom {
				m[common.BytesToAddress(a).Hex()] = c.Amount
			}
			return false
		})
		return m
	}
	before := snap()
	for _, msg := range msgs {
		h := e.n.App.MsgServiceRouter().Handler(msg)
		if h == nil {
			return nil, fmt.Errorf("no handler for %T", msg)
		}
		if _, err := h(cctx, msg); err != nil {
			return nil, err
		}
	}
	return balDelta(before, snap()), nil
}

// approve lets origin grant the staking precompile methods to grantee (EOA -> precompile).
func (e *pcEnv) approve(origin vn.Account, grantee common.Address, amount *big.Int, methods ...string) bool {
	bz, err := e.abiStaking.Pack("approve", grantee, amount, methods)
	vn.Must(err)
	to := addrStaking
	res := e.n.Deliver(e.n.EthTx(origin, vn.EthArgs{Nonce: e.n.EthNonce(origin.Eth), To: &to, Gas: 500000, GasPrice: vn.HelperGasPrice, Data: bz}))
	er := vn.EthResult(res)
	return res.Code == 0 && len(er) == 1 && er[0].VmError == ""
}

// deploy deploys runtime steps as a contract funded with `fund`.
func (e *pcEnv) deploy(steps []evmasm.Step, fund int64) (common.Address, error) {
	addr, res := e.n.Deploy(e.deployer, evmasm.InitCode(nil, steps), big.NewInt(fund))
	if res.Code != 0 {
		return addr, fmt.Errorf("deploy: %s", res.Log)
	}
	if er := vn.EthResult(res); len(er) != 1 || er[0].VmError != "" {
		return addr, fmt.Errorf("deploy vm error")
	}
	return addr, nil
}

func (e *pcEnv) slot(addr common.Address, slot uint64) uint64 {
	h := e.n.App.EvmKeeper.GetState(e.n.Ctx(), addr, common.BigToHash(new(big.Int).SetUint64(slot)))
	return new(big.Int).SetBytes(h.Bytes()).Uint64()
}

var _ = report.Start
