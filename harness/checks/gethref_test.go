//go:build verif

package checks

import (
	"time"
	"fmt"
	"math"
	"math/big"
	"os"

	sdk "github.com/cosmos/cosmos-sdk/types"
	"github.com/ethereum/go-ethereum/common"
	"github.com/ethereum/go-ethereum/core"
	"github.com/ethereum/go-ethereum/core/rawdb"
	"github.com/ethereum/go-ethereum/core/state"
	ethtypes "github.com/ethereum/go-ethereum/core/types"
	"github.com/ethereum/go-ethereum/core/vm"
	"github.com/ethereum/go-ethereum/eth/tracers/logger"

	evmtypes "github.com/haqq-network/haqq/x/evm/types"

	"verif/harness/vn"
)

// gethRef executes tx with upstream go-ethereum's own state transition
// (core.ApplyMessage) on an in-memory state mirrored from the chain for the given
// addresses, and returns the gas used after refunds. It is independent of Haqq's StateDB,
// keeper and fee code; it shares the interpreter.
type gethResult struct {
	UsedGas uint64
	Failed  bool
	Err     error
	// balances after execution (before any fee-collector bookkeeping) for the mirrored accounts
	Balances map[common.Address]*big.Int
	// full post-state of the mirrored accounts
	Exists  map[common.Address]bool
	Nonces  map[common.Address]uint64
	CodeLen map[common.Address]int
	Logs    int
	// DB is the reference post-state (after end-of-transaction processing); PreSlots lists the
	// storage slots each mirrored account had before the transaction.
	DB       *state.StateDB
	PreSlots map[common.Address][]common.Hash
}

func gethRef(n *vn.Node, tx *ethtypes.Transaction, baseFee *big.Int, addrs []common.Address) gethResult {
	ctx := n.Ctx()
	db, err := state.New(common.Hash{}, state.NewDatabase(rawdb.NewMemoryDatabase()), nil)
	if err != nil {
		return gethResult{Err: err}
	}
	seen := map[common.Address]bool{}
	preSlots := map[common.Address][]common.Hash{}
	for _, a := range addrs {
		if seen[a] {
			continue
		}
		seen[a] = true
		bal := n.App.BankKeeper.GetBalance(ctx, sdk.AccAddress(a.Bytes()), vn.Denom).Amount.BigInt()
		acct := n.App.EvmKeeper.GetAccountWithoutBalance(ctx, a)
		if acct == nil && bal.Sign() == 0 {
			continue
		}
		db.CreateAccount(a)
		db.SetBalance(a, bal)
		if acct != nil {
			db.SetNonce(a, acct.Nonce)
			if code := n.App.EvmKeeper.GetCode(ctx, common.BytesToHash(acct.CodeHash)); len(code) > 0 {
				db.SetCode(a, code)
			}
			n.App.EvmKeeper.ForEachStorage(ctx, a, func(k, v common.Hash) bool {
				db.SetState(a, k, v)
				preSlots[a] = append(preSlots[a], k)
				return true
			})
		}
	}
	root, err := db.Commit(false)
	if err != nil {
		return gethResult{Err: err}
	}
	db, _ = state.New(root, db.Database(), nil)
	cfg := evmtypes.DefaultChainConfig().EthereumConfig(n.EIP155())
	signer := ethtypes.MakeSigner(cfg, big.NewInt(n.Height))
	if baseFee == nil {
		baseFee = new(big.Int)
	}
	msg, err := tx.AsMessage(signer, baseFee)
	if err != nil {
		return gethResult{Err: err}
	}
	bctx := vm.BlockContext{
		CanTransfer: core.CanTransfer,
		Transfer:    core.Transfer,
		GetHash:     func(uint64) common.Hash { return common.Hash{} },
		Coinbase:    common.Address{0xc0},
		GasLimit:    math.MaxUint64 >> 1,
		BlockNumber: big.NewInt(n.Height),
		Time:        big.NewInt(n.Time.Unix()),
		Difficulty:  big.NewInt(0),
		BaseFee:     baseFee,
	}
	vmcfg := vm.Config{ExtraEips: []int{3855}}
	var sl *logger.StructLogger
	if os.Getenv("VERIF_TRACE") != "" {
		sl = logger.NewStructLogger(&logger.Config{DisableStorage: true, DisableStack: false})
		vmcfg.Debug, vmcfg.Tracer = true, sl
	}
	if gethWatch != nil {
		vmcfg.Debug, vmcfg.Tracer = true, gethWatch
	}
	evm := vm.NewEVM(bctx, core.NewEVMTxContext(msg), db, cfg, vmcfg)
	res, err := core.ApplyMessage(evm, msg, new(core.GasPool).AddGas(math.MaxUint64>>1))
	if sl != nil {
		logs := sl.StructLogs()
		fmt.Printf("TRACE: %d steps, result err=%v\n", len(logs), res.Err)
		for i, l := range logs {
			if l.Err != nil || i >= len(logs)-6 || l.Op == vm.SELFDESTRUCT || l.Op == vm.CALL || l.Op == vm.DELEGATECALL || l.Op == vm.STATICCALL || l.Op == vm.CALLCODE || l.Op == vm.REVERT || l.Op == vm.INVALID {
				fmt.Printf("  pc=%d op=%s depth=%d gas=%d cost=%d err=%v\n", l.Pc, l.Op, l.Depth, l.Gas, l.GasCost, l.Err)
			}
		}
	}
	if err != nil {
		return gethResult{Err: err}
	}
	out := gethResult{UsedGas: res.UsedGas, Failed: res.Failed(), Balances: map[common.Address]*big.Int{},
		Exists: map[common.Address]bool{}, Nonces: map[common.Address]uint64{}, CodeLen: map[common.Address]int{}, PreSlots: preSlots}
	out.Logs = len(db.Logs())
	// end of transaction: apply self-destructs, drop empty touched accounts, write storage to the trie
	root2, err := db.Commit(true)
	if err != nil {
		return gethResult{Err: err}
	}
	db, err = state.New(root2, db.Database(), nil)
	if err != nil {
		return gethResult{Err: err}
	}
	for a := range seen {
		out.Balances[a] = db.GetBalance(a)
		out.Exists[a] = db.Exist(a)
		out.Nonces[a] = db.GetNonce(a)
		out.CodeLen[a] = len(db.GetCode(a))
	}
	out.DB = db
	return out
}

// watchTracer records the calls made to one address during the reference execution and whether
// each of them survived, i.e. was made in a frame that returned normally and all of whose
// ancestors returned normally.
type watchTracer struct {
	watch common.Address
	stack [][]int // per open frame: indices (into calls) of watched calls made inside it or its finished children
	calls []watchedCall
}

type watchedCall struct {
	From     common.Address
	Input    []byte
	Survived bool
}

var gethWatch *watchTracer

func (w *watchTracer) CaptureTxStart(uint64) {}
func (w *watchTracer) CaptureTxEnd(uint64)   {}
func (w *watchTracer) CaptureStart(_ *vm.EVM, _, _ common.Address, _ bool, _ []byte, _ uint64, _ *big.Int) {
	w.stack = [][]int{{}}
}
func (w *watchTracer) CaptureEnd(_ []byte, _ uint64, _ time.Duration, err error) {
	if len(w.stack) == 0 {
		return
	}
	for _, i := range w.stack[0] {
		w.calls[i].Survived = err == nil
	}
}
func (w *watchTracer) CaptureEnter(_ vm.OpCode, from, to common.Address, input []byte, _ uint64, _ *big.Int) {
	w.stack = append(w.stack, []int{})
	if to == w.watch {
		w.calls = append(w.calls, watchedCall{From: from, Input: append([]byte{}, input...)})
		top := len(w.stack) - 1
		w.stack[top] = append(w.stack[top], len(w.calls)-1)
	}
}
func (w *watchTracer) CaptureExit(_ []byte, _ uint64, err error) {
	if len(w.stack) < 2 {
		return
	}
	top := w.stack[len(w.stack)-1]
	w.stack = w.stack[:len(w.stack)-1]
	if err == nil {
		// the frame's calls now depend on the parent
		w.stack[len(w.stack)-1] = append(w.stack[len(w.stack)-1], top...)
	}
	// on error everything recorded inside the frame stays "not survived"
}
func (w *watchTracer) CaptureState(uint64, vm.OpCode, uint64, uint64, *vm.ScopeContext, []byte, int, error) {
}
func (w *watchTracer) CaptureFault(uint64, vm.OpCode, uint64, uint64, *vm.ScopeContext, int, error) {}
