//go:build verif

package checks

import (
	"math"
	"math/big"

	sdk "github.com/cosmos/cosmos-sdk/types"
	"github.com/ethereum/go-ethereum/common"
	"github.com/ethereum/go-ethereum/core"
	"github.com/ethereum/go-ethereum/core/rawdb"
	"github.com/ethereum/go-ethereum/core/state"
	ethtypes "github.com/ethereum/go-ethereum/core/types"
	"github.com/ethereum/go-ethereum/core/vm"

	evmtypes "github.com/haqq-network/haqq/x/evm/types"

	"verif/harness/vn"
)

// gethRef executes tx with upstream go-ethereum's own state transition
// (core.ApplyMessage) on an in-memory state mirrored from the chain for the given
// addresses, and returns the gas used after refunds. It is independent of Haqq's StateDB,
// keeper and fee code; it shares the interpreter.
type gethResult struct {
	UsedGas uint64
	Failed  bool
	Err     error
	// balances after execution (before any fee-collector bookkeeping) for the mirrored accounts
	Balances map[common.Address]*big.Int
}

func gethRef(n *vn.Node, tx *ethtypes.Transaction, baseFee *big.Int, addrs []common.Address) gethResult {
	ctx := n.Ctx()
	db, err := state.New(common.Hash{}, state.NewDatabase(rawdb.NewMemoryDatabase()), nil)
	if err != nil {
		return gethResult{Err: err}
	}
	seen := map[common.Address]bool{}
	for _, a := range addrs {
		if seen[a] {
			continue
		}
		seen[a] = true
		bal := n.App.BankKeeper.GetBalance(ctx, sdk.AccAddress(a.Bytes()), vn.Denom).Amount.BigInt()
		acct := n.App.EvmKeeper.GetAccountWithoutBalance(ctx, a)
		if acct == nil && bal.Sign() == 0 {
			continue
		}
		db.CreateAccount(a)
		db.SetBalance(a, bal)
		if acct != nil {
			db.SetNonce(a, acct.Nonce)
			if code := n.App.EvmKeeper.GetCode(ctx, common.BytesToHash(acct.CodeHash)); len(code) > 0 {
				db.SetCode(a, code)
			}
			n.App.EvmKeeper.ForEachStorage(ctx, a, func(k, v common.Hash) bool {
				db.SetState(a, k, v)
				return true
			})
		}
	}
	root, err := db.Commit(false)
	if err != nil {
		return gethResult{Err: err}
	}
	db, _ = state.New(root, db.Database(), nil)
	cfg := evmtypes.DefaultChainConfig().EthereumConfig(n.EIP155())
	signer := ethtypes.MakeSigner(cfg, big.NewInt(n.Height))
	if baseFee == nil {
		baseFee = new(big.Int)
	}
	msg, err := tx.AsMessage(signer, baseFee)
	if err != nil {
		return gethResult{Err: err}
	}
	bctx := vm.BlockContext{
		CanTransfer: core.CanTransfer,
		Transfer:    core.Transfer,
		GetHash:     func(uint64) common.Hash { return common.Hash{} },
		Coinbase:    common.Address{0xc0},
		GasLimit:    math.MaxUint64 >> 1,
		BlockNumber: big.NewInt(n.Height),
		Time:        big.NewInt(n.Time.Unix()),
		Difficulty:  big.NewInt(0),
		BaseFee:     baseFee,
	}
	evm := vm.NewEVM(bctx, core.NewEVMTxContext(msg), db, cfg, vm.Config{ExtraEips: []int{3855}})
	res, err := core.ApplyMessage(evm, msg, new(core.GasPool).AddGas(math.MaxUint64>>1))
	if err != nil {
		return gethResult{Err: err}
	}
	out := gethResult{UsedGas: res.UsedGas, Failed: res.Failed(), Balances: map[common.Address]*big.Int{}}
	for a := range seen {
		out.Balances[a] = db.GetBalance(a)
	}
	return out
}
