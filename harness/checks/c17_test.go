//go:build verif

package checks

import (
	"fmt"
	dbm "github.com/cometbft/cometbft-db"
	abci "github.com/cometbft/cometbft/abci/types"
	"github.com/cometbft/cometbft/libs/log"
	"github.com/cosmos/cosmos-sdk/baseapp"
	simtestutil "github.com/cosmos/cosmos-sdk/testutil/sims"
	"github.com/haqq-network/haqq/encoding"
	"math"
	"math/big"
	"math/rand"
	"os"
	"testing"
	"time"

	sdkmath "cosmossdk.io/math"
	tmproto "github.com/cometbft/cometbft/proto/tendermint/types"
	"github.com/cosmos/cosmos-sdk/codec"
	codectypes "github.com/cosmos/cosmos-sdk/codec/types"
	sdk "github.com/cosmos/cosmos-sdk/types"
	banktypes "github.com/cosmos/cosmos-sdk/x/bank/types"
	"github.com/ethereum/go-ethereum/common"

	"github.com/haqq-network/haqq/app"
	haqqtypes "github.com/haqq-network/haqq/types"
	feemarkettypes "github.com/haqq-network/haqq/x/feemarket/types"

	"verif/harness/report"
	"verif/harness/vn"
)

// refBaseFee is the statement's function, in plain integers.
func refBaseFee(base *big.Int, g, T uint64, denom uint64, minGP *big.Int) (*big.Int, string) {
	switch {
	case g == T:
		return new(big.Int).Set(base), "eq"
	case g > T:
		d := new(big.Int).Mul(base, new(big.Int).SetUint64(g-T))
		d.Div(d, new(big.Int).SetUint64(T))
		d.Div(d, new(big.Int).SetUint64(denom))
		if d.Cmp(big.NewInt(1)) < 0 {
			d = big.NewInt(1)
			return new(big.Int).Add(base, d), "up-min1"
		}
		return new(big.Int).Add(base, d), "up"
	default:
		d := new(big.Int).Mul(base, new(big.Int).SetUint64(T-g))
		d.Div(d, new(big.Int).SetUint64(T))
		d.Div(d, new(big.Int).SetUint64(denom))
		res := new(big.Int).Sub(base, d)
		if res.Cmp(minGP) < 0 {
			return new(big.Int).Set(minGP), "down-clamp"
		}
		return res, "down"
	}
}

func magClass(b *big.Int) string {
	n := len(b.String())
	switch {
	case b.Sign() == 0:
		return "0"
	case n <= 2:
		return "<100"
	case n <= 9:
		return "<1e9"
	case n <= 18:
		return "<1e18"
	default:
		return "≥1e18"
	}
}

func TestC17(t *testing.T) {
	r := report.Start("C17")
	defer r.Finish()
	// (a) direct calls on a real keeper
	n := vn.New(vn.Config{Seed: uint64(r.Seed), NumVals: 1, NumAccounts: 2})
	n.BeginBlock(vn.BlockOpts{})
	nd := r.Cases(160000, 12000000)
	for i := 0; i < nd; i++ {
		// direct cases are cheap: shard by contiguous ranges via modulo
		if i%r.NShards != r.Shard.Shard && !r.Replaying() {
			continue
		}
		id := fmt.Sprintf("direct/%d", i)
		if r.Replaying() && r.ReplayCase() != id {
			continue
		}
		c17Direct(r, n, id)
	}
	n.EndBlock()
	n.Commit()
	// (b) block sequences
	nh := r.Cases(64, 3200)
	for i := 0; i < nh; i++ {
		id := fmt.Sprintf("seq/%d", i)
		if !r.Want(id, i) {
			continue
		}
		c17Sequence(r, id)
	}
}

func genBase(rng *rand.Rand) *big.Int {
	switch rng.Intn(7) {
	case 0:
		return big.NewInt(int64(rng.Intn(20)))
	case 1:
		return big.NewInt(int64(rng.Intn(1000)))
	case 2:
		return big.NewInt(1_000_000_000)
	case 3:
		return new(big.Int).Mul(big.NewInt(rng.Int63n(1_000_000)+1), big.NewInt(1_000_000_000))
	case 4:
		return new(big.Int).Exp(big.NewInt(10), big.NewInt(int64(rng.Intn(30))), nil)
	default:
		return big.NewInt(rng.Int63())
	}
}

func c17Direct(r *report.R, n *vn.Node, id string) {
	rng := r.Rand(id)
	r.Eval(1)
	p := feemarkettypes.DefaultParams()
	p.NoBaseFee = false
	p.EnableHeight = 0
	elast := uint32(1 + rng.Intn(4))
	if rng.Intn(5) == 0 {
		elast = uint32(1 + rng.Intn(100))
	}
	den := uint32(8)
	switch rng.Intn(4) {
	case 0:
		den = 1
	case 1:
		den = uint32(1 + rng.Intn(1000))
	}
	p.ElasticityMultiplier, p.BaseFeeChangeDenominator = elast, den
	base := genBase(rng)
	p.BaseFee = sdkmath.NewIntFromBigInt(base)
	switch rng.Intn(4) {
	case 0:
		p.MinGasPrice = sdk.ZeroDec()
	case 1:
		p.MinGasPrice = sdk.NewDecFromBigIntWithPrec(big.NewInt(rng.Int63n(1_000_000_000_000)), 3) // fractional
	case 2: // close to the base fee
		mg := new(big.Int).Sub(base, big.NewInt(int64(rng.Intn(5))))
		if mg.Sign() < 0 {
			mg = big.NewInt(0)
		}
		p.MinGasPrice = sdk.NewDecFromBigInt(mg)
	default:
		p.MinGasPrice = sdk.NewDecFromBigInt(genBase(rng))
	}
	var maxGas int64
	limCls := ""
	switch rng.Intn(4) {
	case 0:
		maxGas, limCls = -1, "unlimited"
	case 1:
		maxGas, limCls = int64(elast)+int64(rng.Intn(50)), "tiny"
	case 2:
		maxGas, limCls = 1_000_000+rng.Int63n(100_000_000), "typical"
	default:
		maxGas, limCls = rng.Int63n(math.MaxInt64-int64(elast))+int64(elast), "huge"
	}
	gasLimit := new(big.Int).SetUint64(math.MaxUint64)
	if maxGas > -1 {
		gasLimit = big.NewInt(maxGas)
	}
	T := new(big.Int).Div(gasLimit, big.NewInt(int64(elast))).Uint64()
	if T == 0 {
		return
	}
	var g uint64
	switch rng.Intn(7) {
	case 0:
		g = T
	case 1:
		g = T + 1
	case 2:
		g = T - 1
	case 3:
		g = 0
	case 4:
		if T < math.MaxUint64/2 {
			g = T + uint64(rng.Int63n(int64(min64(int64(T), math.MaxInt64-1))+1))
		} else {
			g = T + uint64(rng.Int63n(1000))
		}
	case 5:
		g = uint64(rng.Int63n(int64(min64(int64(T>>1), math.MaxInt64-1)) + 1))
	default:
		g = rng.Uint64()
	}
	ctx := n.Ctx().WithBlockHeight(int64(rng.Intn(1000) + 5)).WithConsensusParams(&tmproto.ConsensusParams{Block: &tmproto.BlockParams{MaxGas: maxGas, MaxBytes: 200000}})
	fk := n.App.FeeMarketKeeper
	vn.Must(fk.SetParams(ctx, p))
	call := func(g uint64) *big.Int {
		fk.SetBlockGasWanted(ctx, g)
		return fk.CalculateBaseFee(ctx)
	}
	minGP := p.MinGasPrice.TruncateInt().BigInt()
	got := call(g)
	want, branch := refBaseFee(base, g, T, uint64(den), minGP)
	desc := fmt.Sprintf("base=%s g=%d T=%d (maxGas=%d elasticity=%d) denominator=%d minGasPrice=%s", base, g, T, maxGas, elast, den, p.MinGasPrice)
	if got == nil || got.Cmp(want) != 0 {
		r.Violation(id, "CalculateBaseFee|"+branch+"|≠reference", fmt.Sprintf("got %v want %s; %s", got, want, desc), nil)
		return
	}
	// monotone in g (metamorphic)
	// (the statement derives monotonicity from the clamp; that derivation needs the parent
	// base fee to be at least the minimum gas price - below it the "lowered" branch jumps up
	// to the minimum while the "raised" branch does not, by the formula itself)
	g2 := g + uint64(rng.Int63n(1_000_000)) + 1
	if base.Cmp(minGP) < 0 {
		r.Count("direct/base-below-min-gas-price(monotonicity-not-applicable)", 1)
	} else if g2 > g {
		r.Count("direct/monotonicity_probes", 1)
		got2 := call(g2)
		if got2 == nil || got2.Cmp(got) < 0 {
			r.Violation(id, "CalculateBaseFee|not-monotone-in-g", fmt.Sprintf("f(%d)=%s > f(%d)=%v; %s", g, got, g2, got2, desc), nil)
			return
		}
	}
	// lower bound when lowered
	if g < T && got.Cmp(minGP) < 0 {
		r.Violation(id, "CalculateBaseFee|below-min-gas-price", fmt.Sprintf("got %s < min %s; %s", got, minGP, desc), nil)
		return
	}
	r.Count("direct/"+branch, 1)
	r.Nontriv(fmt.Sprintf("direct|%s|base%s|limit-%s", branch, magClass(base), limCls))
	r.Sample("direct-"+branch, desc+" -> "+got.String())
}

func c17Sequence(r *report.R, id string) {
	rng := r.Rand(id)
	maxGas := int64(-1)
	limCls := "unlimited"
	if rng.Intn(4) > 0 {
		maxGas = 2_000_000 + rng.Int63n(8_000_000)
		limCls = "finite"
	}
	elast := uint32(1 + rng.Intn(3))
	den := uint32([]int{8, 8, 2, 50, 1}[rng.Intn(5)])
	mult := []sdk.Dec{sdk.NewDecWithPrec(5, 1), sdk.ZeroDec(), sdk.OneDec(), sdk.NewDecWithPrec(int64(rng.Intn(1000)), 3)}[rng.Intn(4)]
	base0 := []int64{1_000_000_000, 7, 100, 25_000_000_000}[rng.Intn(4)]
	minGP := []sdk.Dec{sdk.ZeroDec(), sdk.NewDec(base0 - base0/10), sdk.NewDecWithPrec(15, 1)}[rng.Intn(3)]
	cp := *app.DefaultConsensusParams
	cp.Block = &tmproto.BlockParams{MaxBytes: 2_000_000, MaxGas: maxGas}
	cfg := vn.Config{Seed: uint64(r.Seed), NumVals: 1, NumAccounts: 8, ConsParams: &cp,
		AccountBalance: sdkmath.NewIntWithDecimal(1, 30)}
	cfg.Mutate = func(cdc codec.Codec, gs haqqtypes.GenesisState) {
		fm := feemarkettypes.DefaultGenesisState()
		fm.Params.NoBaseFee = false
		fm.Params.EnableHeight = 0
		fm.Params.BaseFee = sdkmath.NewInt(base0)
		fm.Params.ElasticityMultiplier = elast
		fm.Params.BaseFeeChangeDenominator = den
		fm.Params.MinGasMultiplier = mult
		fm.Params.MinGasPrice = minGP
		gs[feemarkettypes.ModuleName] = cdc.MustMarshalJSON(fm)
	}
	n := vn.New(cfg)
	gasLimit := new(big.Int).SetUint64(math.MaxUint64)
	if maxGas > -1 {
		gasLimit = big.NewInt(maxGas)
	}
	T := new(big.Int).Div(gasLimit, big.NewInt(int64(elast))).Uint64()
	fk := n.App.FeeMarketKeeper
	prevG := uint64(0) // genesis block gas
	prevBase := big.NewInt(base0)
	minGPi := minGP.TruncateInt().BigInt()
	var trace []string
	nblocks := 12 + rng.Intn(r.Pick(20, 40))
	heavy := rng.Intn(2) == 0
	importAt := -1
	if rng.Intn(3) == 0 {
		importAt = 4 + rng.Intn(nblocks-5)
	}
	for b := 0; b < nblocks; b++ {
		if b == importAt {
			// the chain goes on from its own exported genesis (a new application started from the
			// document): the next base fee must still follow from the last block of the old one
			exp, err := n.App.ExportAppStateAndValidators(false, nil, nil)
			if err == nil {
				na := app.NewHaqq(log.NewNopLogger(), dbm.NewMemDB(), nil, true, map[int64]bool{}, app.DefaultNodeHome, 5,
					encoding.MakeConfig(app.ModuleBasics), simtestutil.NewAppOptionsWithFlagHome(app.DefaultNodeHome), baseapp.SetChainID(n.Cfg.ChainID))
				na.InitChain(abci.RequestInitChain{Time: n.Time, ChainId: n.Cfg.ChainID, ConsensusParams: exp.ConsensusParams, AppStateBytes: exp.AppState, InitialHeight: exp.Height, Validators: nil})
				n.App = na
				fk = n.App.FeeMarketKeeper
				r.Count("seq/continued_from_exported_genesis", 1)
				trace = append(trace, fmt.Sprintf("h=%d: export -> new application from the exported genesis", n.Height))
			}
		}
		n.BeginBlock(vn.BlockOpts{Dt: time.Second})
		// read the stored parameter itself (GetBaseFee maps a zero base fee to "nil")
		got := fk.GetParams(n.Ctx()).BaseFee.BigInt()
		want, branch := refBaseFee(prevBase, prevG, T, uint64(den), minGPi)
		r.Eval(1)
		trace = append(trace, fmt.Sprintf("h=%d base=%s (parent %s, g=%d, T=%d) %s", n.Height, got, prevBase, prevG, T, branch))
		if len(trace) > 12 {
			trace = trace[len(trace)-12:]
		}
		if got == nil || got.Cmp(want) != 0 {
			r.Violation(id, "sequence|"+branch+"|base-fee≠ref(parent, max(wanted×mult, used))", fmt.Sprintf("height %d: base fee %v, reference %s from parent %s with g=%d (T=%d, denominator=%d, min=%s, multiplier=%s)", n.Height, got, want, prevBase, prevG, T, den, minGP, mult), trace)
			n.EndBlock()
			n.Commit()
			return
		}
		r.Count("seq/"+branch, 1)
		r.Nontriv(fmt.Sprintf("seq|%s|base%s|limit-%s", branch, magClass(prevBase), limCls))
		// transactions
		ntx := rng.Intn(6)
		if heavy {
			ntx = 3 + rng.Intn(10)
		}
		var sumWanted, sumUsed uint64
		price := new(big.Int).Mul(new(big.Int).Add(got, big.NewInt(10)), big.NewInt(2))
		used := map[int]bool{}
		for k := 0; k < ntx; k++ {
			ai := rng.Intn(len(n.Accounts))
			if used[ai] {
				continue
			}
			used[ai] = true
			a := n.Accounts[ai]
			to := n.Accounts[(ai+1)%len(n.Accounts)]
			var tx []byte
			var gasLim uint64
			kind := rng.Intn(9)
			switch kind {
			case 6, 7: // cosmos send signed as EIP-712 typed data (6: legacy web3 extension route, 7: sign-mode route), big declared gas
				gasLim = 150000 + uint64(rng.Intn(3000000))
				fee := sdk.NewCoins(sdk.NewCoin(vn.Denom, sdkmath.NewIntFromBigInt(new(big.Int).Mul(price, new(big.Int).SetUint64(gasLim)))))
				bz, err := n.EIP712Tx(a, []sdk.Msg{banktypes.NewMsgSend(a.Addr, to.Addr, vn.Coins(5))}, gasLim, fee, kind == 6, rng.Intn(2) == 0, nil)
				if err != nil {
					r.Count("seq_tx/eip712-build-error", 1)
					continue
				}
				tx = bz
			case 8: // cosmos send carrying the dynamic-fee extension option
				gasLim = 150000 + uint64(rng.Intn(3000000))
				fee := sdk.NewCoins(sdk.NewCoin(vn.Denom, sdkmath.NewIntFromBigInt(new(big.Int).Mul(price, new(big.Int).SetUint64(gasLim)))))
				o, _ := codectypes.NewAnyWithValue(&haqqtypes.ExtensionOptionDynamicFeeTx{MaxPriorityPrice: sdkmath.NewInt(int64(rng.Intn(1000)))})
				tx = n.CosmosTx(vn.CosmosArgs{Msgs: []sdk.Msg{banktypes.NewMsgSend(a.Addr, to.Addr, vn.Coins(5))}, Gas: gasLim, Fee: fee, ExtOpts: []*codectypes.Any{o}}, a)
			case 0, 1: // eth transfer with slack gas
				gasLim = 21000 + uint64(rng.Intn(900000))
				toE := to.Eth
				tx = n.EthTx(a, vn.EthArgs{Type: 2, Nonce: n.EthNonce(a.Eth), To: &toE, Value: big.NewInt(1), Gas: gasLim, GasFeeCap: price, GasTipCap: big.NewInt(1)})
			case 2: // eth tx that runs out of gas (contract creation with too little gas)
				gasLim = 53000 + uint64(rng.Intn(2000))
				tx = n.EthTx(a, vn.EthArgs{Type: 0, Nonce: n.EthNonce(a.Eth), Gas: gasLim, GasPrice: price, Data: common.FromHex("0x60006000556001600155600260025560036003556004600455")})
			case 3: // bad nonce: rejected by the ante handler, must not count
				gasLim = 21000 + uint64(rng.Intn(5000000))
				toE := to.Eth
				tx = n.EthTx(a, vn.EthArgs{Type: 2, Nonce: n.EthNonce(a.Eth) + 5, To: &toE, Gas: gasLim, GasFeeCap: price, GasTipCap: big.NewInt(1)})
			case 4: // cosmos send with a big declared gas limit
				gasLim = 150000 + uint64(rng.Intn(3000000))
				fee := sdk.NewCoins(sdk.NewCoin(vn.Denom, sdkmath.NewIntFromBigInt(new(big.Int).Mul(price, new(big.Int).SetUint64(gasLim)))))
				tx = n.CosmosTx(vn.CosmosArgs{Msgs: []sdk.Msg{banktypes.NewMsgSend(a.Addr, to.Addr, vn.Coins(5))}, Gas: gasLim, Fee: fee}, a)
			default: // cosmos send that runs out of gas during execution
				gasLim = 60000 + uint64(rng.Intn(10000))
				fee := sdk.NewCoins(sdk.NewCoin(vn.Denom, sdkmath.NewIntFromBigInt(new(big.Int).Mul(price, new(big.Int).SetUint64(gasLim)))))
				tx = n.CosmosTx(vn.CosmosArgs{Msgs: []sdk.Msg{banktypes.NewMsgSend(a.Addr, to.Addr, vn.Coins(5)), banktypes.NewMsgSend(a.Addr, to.Addr, vn.Coins(6))}, Gas: gasLim, Fee: fee}, a)
			}
			seqBefore := n.Seq(a.Addr)
			res := n.Deliver(tx)
			antePassed := n.Seq(a.Addr) > seqBefore
			if antePassed {
				sumWanted += gasLim
			}
			u := uint64(res.GasUsed)
			if res.GasWanted > 0 && u > uint64(res.GasWanted) {
				u = uint64(res.GasWanted)
			}
			sumUsed += u
			r.Count(fmt.Sprintf("seq_tx/kind%d/code%d", kind, res.Code), 1)
			if os.Getenv("VERIF_DBG") != "" {
				fmt.Printf("h=%d kind=%d gasLim=%d code=%d wanted=%d used=%d antePassed=%v log=%.80s\n", n.Height, kind, gasLim, res.Code, res.GasWanted, res.GasUsed, antePassed, res.Log)
			}
		}
		n.EndBlock()
		// the figure the next block must use; the gas used of a block is what its gas meter shows,
		// and that meter stops at the block gas limit (the transaction that crosses it fails with
		// "out of gas in location: block gas meter")
		if maxGas > -1 && sumUsed > uint64(maxGas) {
			sumUsed = uint64(maxGas)
			r.Count("seq/blocks_at_block_gas_limit", 1)
		}
		gw := sdk.NewDec(int64(sumWanted)).Mul(mult).TruncateInt().Uint64()
		prevG = gw
		if sumUsed > gw {
			prevG = sumUsed
		}
		// cross-check with the figure the module stored (diagnostic: names which side differs)
		if st := fk.GetBlockGasWanted(n.Ctx()); st != prevG {
			r.Violation(id, "sequence|stored-gas-figure≠max(ΣgasWanted(ante passed)×mult, ΣgasUsed)", fmt.Sprintf("height %d stored %d, from tx gas limits and ABCI results %d (Σwanted=%d mult=%s Σused=%d)", n.Height, st, prevG, sumWanted, mult, sumUsed), trace)
			n.Commit()
			return
		}
		prevBase = got
		n.Commit()
	}
	r.Sample("sequence", map[string]any{"id": id, "trace": trace})
}
