//go:build verif

package checks

import (
	"bytes"
	simappparams "cosmossdk.io/simapp/params"
	"crypto/ecdsa"
	"fmt"
	codectypes "github.com/cosmos/cosmos-sdk/codec/types"
	authtx "github.com/cosmos/cosmos-sdk/x/auth/tx"
	"math/big"
	"math/rand"
	"strings"
	"testing"

	sdk "github.com/cosmos/cosmos-sdk/types"
	"github.com/ethereum/go-ethereum/common"
	ethtypes "github.com/ethereum/go-ethereum/core/types"
	ethcrypto "github.com/ethereum/go-ethereum/crypto"

	"github.com/haqq-network/haqq/app"
	"github.com/haqq-network/haqq/encoding"
	evmtypes "github.com/haqq-network/haqq/x/evm/types"

	"verif/harness/report"
	"verif/harness/vn"
)

var u256max = new(big.Int).Sub(new(big.Int).Lsh(big.NewInt(1), 256), big.NewInt(1))

func genU256(rng *rand.Rand) (*big.Int, string) {
	switch rng.Intn(6) {
	case 0:
		return new(big.Int), "0"
	case 1:
		return new(big.Int).Set(u256max), "max"
	case 2:
		return big.NewInt(int64(rng.Intn(1000))), "small"
	case 3:
		return new(big.Int).Lsh(big.NewInt(1), uint(rng.Intn(256))), "pow2"
	default:
		b := make([]byte, 1+rng.Intn(32))
		rng.Read(b)
		return new(big.Int).SetBytes(b), "rand"
	}
}

func genKey(rng *rand.Rand) *ecdsa.PrivateKey {
	for {
		b := make([]byte, 32)
		rng.Read(b)
		if k, err := ethcrypto.ToECDSA(b); err == nil {
			return k
		}
	}
}

func TestC18(t *testing.T) {
	r := report.Start("C18")
	defer r.Finish()
	var batch []*ethtypes.Transaction
	enc := encoding.MakeConfig(app.ModuleBasics)
	n := r.Cases(48000, 4000000)
	for i := 0; i < n; i++ {
		if i%r.NShards != r.Shard.Shard && !r.Replaying() {
			continue
		}
		id := fmt.Sprintf("tx/%d", i)
		if r.Replaying() && r.ReplayCase() != id {
			continue
		}
		rng := r.Rand(id)
		r.Eval(1)
		typ := rng.Intn(3)
		var cid *big.Int
		cidCls := ""
		switch rng.Intn(5) {
		case 0:
			cid, cidCls = big.NewInt(11235), "haqq"
		case 1:
			cid, cidCls = big.NewInt(1), "1"
		case 2:
			cid, cidCls = big.NewInt(int64(rng.Intn(1<<30)+1)), "rand"
		case 3:
			cid, cidCls = new(big.Int).SetUint64(rng.Uint64()>>2|1), "large"
		default:
			cid, cidCls = big.NewInt(54211), "testnet"
		}
		var to *common.Address
		toCls := "create"
		if rng.Intn(4) > 0 {
			var a common.Address
			rng.Read(a[:])
			if rng.Intn(10) == 0 {
				a = common.Address{}
			}
			to, toCls = &a, "call"
		}
		value, vCls := genU256(rng)
		var data []byte
		dCls := "nodata"
		switch rng.Intn(4) {
		case 1:
			data = make([]byte, rng.Intn(100)+1)
			rng.Read(data)
			dCls = "data"
		case 2:
			data = make([]byte, rng.Intn(40000)+1000)
			rng.Read(data)
			dCls = "bigdata"
		case 3:
			data = []byte{}
			dCls = "emptydata"
		}
		var al ethtypes.AccessList
		aCls := "noAL"
		if typ > 0 && rng.Intn(2) == 0 {
			na := rng.Intn(5)
			if rng.Intn(10) == 0 {
				na = 100 + rng.Intn(200)
			}
			for j := 0; j < na; j++ {
				var t ethtypes.AccessTuple
				rng.Read(t.Address[:])
				nk := rng.Intn(4)
				for k := 0; k < nk; k++ {
					var h common.Hash
					rng.Read(h[:])
					t.StorageKeys = append(t.StorageKeys, h)
				}
				al = append(al, t)
			}
			aCls = fmt.Sprintf("AL%d", bucket(len(al)))
		}
		gas := rng.Uint64()
		if rng.Intn(2) == 0 {
			gas = uint64(rng.Intn(10_000_000))
		}
		nonce := rng.Uint64()
		if rng.Intn(2) == 0 {
			nonce = uint64(rng.Intn(1000))
		}
		gp, gpCls := genU256(rng)
		tip, tipCls := genU256(rng)
		var inner ethtypes.TxData
		signer := ethtypes.LatestSignerForChainID(cid)
		prot := "protected"
		switch typ {
		case 0:
			inner = &ethtypes.LegacyTx{Nonce: nonce, To: to, Value: value, Gas: gas, GasPrice: gp, Data: data}
			if rng.Intn(6) == 0 {
				signer = ethtypes.HomesteadSigner{}
				prot = "unprotected"
			}
		case 1:
			inner = &ethtypes.AccessListTx{ChainID: cid, Nonce: nonce, To: to, Value: value, Gas: gas, GasPrice: gp, Data: data, AccessList: al}
		default:
			inner = &ethtypes.DynamicFeeTx{ChainID: cid, Nonce: nonce, To: to, Value: value, Gas: gas, GasFeeCap: gp, GasTipCap: tip, Data: data, AccessList: al}
		}
		key := genKey(rng)
		tx, err := ethtypes.SignNewTx(key, signer, inner)
		if err != nil {
			r.Count("sign_errors", 1)
			continue
		}
		from := ethcrypto.PubkeyToAddress(key.PublicKey)
		raw, _ := tx.MarshalBinary()
		sig := func(f string) string { return fmt.Sprintf("type%d|%s", typ, f) }
		desc := fmt.Sprintf("type=%d chain=%s %s to=%v nonce=%d gas=%d price=%s tip=%s value=%s data=%d al=%d raw=%x", typ, cid, prot, to, nonce, gas, gp, tip, value, len(data), len(al), truncBytes(raw, 200))

		// wrap -> cosmos tx -> bytes -> decode -> unwrap
		msg := &evmtypes.MsgEthereumTx{}
		if err := msg.FromEthereumTx(tx); err != nil {
			r.Violation(id, sig("FromEthereumTx-error"), err.Error()+" "+desc, nil)
			continue
		}
		if msg.Hash != tx.Hash().Hex() {
			r.Violation(id, sig("msg.Hash≠tx.Hash"), desc, nil)
			continue
		}
		// domain: the total fee and cost must themselves fit 256 bits (no account can pay more;
		// the SDK integer type used for the envelope fee panics beyond that)
		if c := tx.Cost(); c.Cmp(u256max) > 0 {
			func() {
				defer func() {
					if recover() != nil {
						r.Count("out_of_domain/fee>2^256:BuildTx-panics", 1)
					}
				}()
				if _, err := msg.BuildTx(enc.TxConfig.NewTxBuilder(), vn.Denom); err != nil {
					r.Count("out_of_domain/fee>2^256:BuildTx-error", 1)
				} else {
					r.Count("out_of_domain/fee>2^256:BuildTx-ok", 1)
				}
			}()
			continue
		}
		built, err := msg.BuildTx(enc.TxConfig.NewTxBuilder(), vn.Denom)
		if err != nil {
			r.Violation(id, sig("BuildTx-error"), err.Error()+" "+desc, nil)
			continue
		}
		bz, err := enc.TxConfig.TxEncoder()(built)
		if err != nil {
			r.Violation(id, sig("encode-error"), err.Error()+" "+desc, nil)
			continue
		}
		dec, err := enc.TxConfig.TxDecoder()(bz)
		if err != nil {
			r.Violation(id, sig("decode-error"), err.Error()+" "+desc, nil)
			continue
		}
		msgs := dec.GetMsgs()
		if len(msgs) != 1 {
			r.Violation(id, sig("msg-count"), desc, nil)
			continue
		}
		m2, ok := msgs[0].(*evmtypes.MsgEthereumTx)
		if !ok {
			r.Violation(id, sig("msg-type"), desc, nil)
			continue
		}
		bad := false
		for pathName, m := range map[string]*evmtypes.MsgEthereumTx{"envelope": m2, "raw-rlp": mustUnmarshalBinary(raw)} {
			if m == nil {
				r.Violation(id, sig(pathName+"|UnmarshalBinary-error"), desc, nil)
				bad = true
				break
			}
			tx2 := m.AsTransaction()
			if tx2 == nil {
				r.Violation(id, sig(pathName+"|AsTransaction-nil"), desc, nil)
				bad = true
				break
			}
			raw2, _ := tx2.MarshalBinary()
			if f := diffTx(tx, tx2, signer, from); f != "" {
				r.Violation(id, sig(pathName+"|field:"+f), "field differs after round trip: "+f+"; "+desc, nil)
				bad = true
				break
			}
			if !bytes.Equal(raw, raw2) {
				r.Violation(id, sig(pathName+"|canonical-bytes"), desc, nil)
				bad = true
				break
			}
			if m.Hash != tx.Hash().Hex() {
				r.Violation(id, sig(pathName+"|msg.Hash≠tx.Hash"), desc, nil)
				bad = true
				break
			}
			if prot == "protected" {
				if s, err := m.GetSender(cid); err != nil || s != from {
					r.Violation(id, sig(pathName+"|GetSender"), fmt.Sprintf("sender %v err %v want %s; %s", s, err, from, desc), nil)
					bad = true
					break
				}
			}
			// derived figures
			td, err := evmtypes.UnpackTxData(m.Data)
			if err != nil {
				r.Violation(id, sig(pathName+"|UnpackTxData"), err.Error(), nil)
				bad = true
				break
			}
			wantFee := new(big.Int).Mul(tx.GasPrice(), new(big.Int).SetUint64(tx.Gas())) // GasPrice() = fee cap for type 2
			wantCost := tx.Cost()
			baseFee, _ := genU256(rng)
			baseFee.Rsh(baseFee, 64)
			wantEffPrice := new(big.Int).Set(tx.GasPrice())
			if typ == 2 {
				wantEffPrice = new(big.Int).Add(tx.GasTipCap(), baseFee)
				if wantEffPrice.Cmp(tx.GasFeeCap()) > 0 {
					wantEffPrice = new(big.Int).Set(tx.GasFeeCap())
				}
			}
			wantEffFee := new(big.Int).Mul(wantEffPrice, new(big.Int).SetUint64(tx.Gas()))
			wantEffCost := new(big.Int).Add(wantEffFee, tx.Value())
			for name, pair := range map[string][2]*big.Int{
				"Fee": {td.Fee(), wantFee}, "Cost": {td.Cost(), wantCost},
				"EffectiveGasPrice":   {td.EffectiveGasPrice(baseFee), wantEffPrice},
				"EffectiveFee":        {td.EffectiveFee(baseFee), wantEffFee},
				"EffectiveCost":       {td.EffectiveCost(baseFee), wantEffCost},
				"msg.GetFee":          {m.GetFee(), wantFee},
				"msg.GetEffectiveFee": {m.GetEffectiveFee(baseFee), wantEffFee},
			} {
				if pair[0] == nil || pair[0].Cmp(pair[1]) != 0 {
					r.Violation(id, sig(pathName+"|figure:"+name), fmt.Sprintf("%s=%v want %s (baseFee %s); %s", name, pair[0], pair[1], baseFee, desc), nil)
					bad = true
				}
			}
			if m.GetGas() != tx.Gas() {
				r.Violation(id, sig(pathName+"|figure:GetGas"), desc, nil)
				bad = true
			}
			if bad {
				break
			}
		}
		if bad {
			continue
		}
		// the Cosmos envelope declares the same gas and fee
		feeTx := dec.(sdk.FeeTx)
		wantFee := new(big.Int).Mul(tx.GasPrice(), new(big.Int).SetUint64(tx.Gas()))
		if feeTx.GetGas() != tx.Gas() || feeTx.GetFee().AmountOf(vn.Denom).BigInt().Cmp(wantFee) != 0 {
			r.Violation(id, sig("envelope-fee/gas"), fmt.Sprintf("envelope gas=%d fee=%s want gas=%d fee=%s; %s", feeTx.GetGas(), feeTx.GetFee(), tx.Gas(), wantFee, desc), nil)
			continue
		}
		// several messages in one envelope: unwrapping any of them by hash must return that message
		// and leave every message of the envelope with its own hash
		batch = append(batch, tx)
		if len(batch) >= 2+rng.Intn(3) {
			if what := c18Envelope(enc, batch, rng); what != "" {
				r.Violation(id, "multi-message-envelope|"+strings.SplitN(what, ":", 2)[0], what, nil)
			} else {
				r.Count("multi_message_envelopes", 1)
				r.Nontriv(fmt.Sprintf("envelope|%d-messages", len(batch)))
			}
			batch = nil
		}
		r.Count(fmt.Sprintf("roundtrips/type%d", typ), 1)
		r.Nontriv(fmt.Sprintf("type%d|%s|%s|chain-%s|value-%s|price-%s|tip-%s|%s|%s", typ, prot, toCls, cidCls, vCls, gpCls, map[bool]string{true: tipCls, false: "-"}[typ == 2], dCls, aCls))
		r.Sample(fmt.Sprintf("type%d", typ), desc)
	}
}

func mustUnmarshalBinary(raw []byte) *evmtypes.MsgEthereumTx {
	m := &evmtypes.MsgEthereumTx{}
	if err := m.UnmarshalBinary(raw); err != nil {
		return nil
	}
	return m
}

func truncBytes(b []byte, n int) []byte {
	if len(b) > n {
		return b[:n]
	}
	return b
}

func bigEq(a, b *big.Int) bool {
	if a == nil || b == nil {
		return (a == nil || a.Sign() == 0) && (b == nil || b.Sign() == 0)
	}
	return a.Cmp(b) == 0
}

// diffTx names the first field in which two geth transactions differ.
func diffTx(a, b *ethtypes.Transaction, signer ethtypes.Signer, from common.Address) string {
	switch {
	case a.Type() != b.Type():
		return "type"
	case a.Hash() != b.Hash():
		// continue to find the field
	}
	if a.Nonce() != b.Nonce() {
		return "nonce"
	}
	if a.Gas() != b.Gas() {
		return "gas"
	}
	if !bigEq(a.GasPrice(), b.GasPrice()) {
		return "gasPrice"
	}
	if !bigEq(a.GasFeeCap(), b.GasFeeCap()) {
		return "gasFeeCap"
	}
	if !bigEq(a.GasTipCap(), b.GasTipCap()) {
		return "gasTipCap"
	}
	if !bigEq(a.Value(), b.Value()) {
		return "value"
	}
	if (a.To() == nil) != (b.To() == nil) || (a.To() != nil && *a.To() != *b.To()) {
		return "to"
	}
	if !bytes.Equal(a.Data(), b.Data()) {
		return "data"
	}
	if !bigEq(a.ChainId(), b.ChainId()) {
		return "chainId"
	}
	al1, al2 := a.AccessList(), b.AccessList()
	if len(al1) != len(al2) {
		return "accessList.len"
	}
	for i := range al1 {
		if al1[i].Address != al2[i].Address || len(al1[i].StorageKeys) != len(al2[i].StorageKeys) {
			return "accessList.entry"
		}
		for j := range al1[i].StorageKeys {
			if al1[i].StorageKeys[j] != al2[i].StorageKeys[j] {
				return "accessList.key"
			}
		}
	}
	v1, r1, s1 := a.RawSignatureValues()
	v2, r2, s2 := b.RawSignatureValues()
	if !bigEq(v1, v2) {
		return "v"
	}
	if !bigEq(r1, r2) {
		return "r"
	}
	if !bigEq(s1, s2) {
		return "s"
	}
	sa, err1 := signer.Sender(a)
	sb, err2 := signer.Sender(b)
	if err1 != nil || err2 != nil || sa != sb || sa != from {
		return "sender"
	}
	if a.Hash() != b.Hash() {
		return "hash"
	}
	return ""
}

// c18Envelope wraps several signed transactions into one Cosmos transaction, encodes, decodes and
// unwraps each by hash (and once by a hash that is not in the envelope).
func c18Envelope(enc simappparams.EncodingConfig, txs []*ethtypes.Transaction, rng *rand.Rand) string {
	b := enc.TxConfig.NewTxBuilder()
	var msgs []sdk.Msg
	for _, tx := range txs {
		m := &evmtypes.MsgEthereumTx{}
		if err := m.FromEthereumTx(tx); err != nil {
			return ""
		}
		msgs = append(msgs, m)
	}
	if err := b.SetMsgs(msgs...); err != nil {
		return ""
	}
	opt, err := codectypes.NewAnyWithValue(&evmtypes.ExtensionOptionsEthereumTx{})
	if err != nil {
		return ""
	}
	if eb, ok := b.(authtx.ExtensionOptionsTxBuilder); ok {
		eb.SetExtensionOptions(opt)
	}
	bz, err := enc.TxConfig.TxEncoder()(b.GetTx())
	if err != nil {
		return "encode: " + err.Error()
	}
	check := func(dec sdk.Tx, after string) string {
		for i, m := range dec.GetMsgs() {
			em := m.(*evmtypes.MsgEthereumTx)
			if em.Hash != txs[i].Hash().Hex() || em.AsTransaction().Hash() != txs[i].Hash() {
				return fmt.Sprintf("recorded-hash≠ethereum-hash: after %s, message %d of %d records %s, its transaction hashes to %s (original %s)", after, i, len(txs), em.Hash, em.AsTransaction().Hash().Hex(), txs[i].Hash().Hex())
			}
		}
		return ""
	}
	order := rng.Perm(len(txs))
	dec, err := enc.TxConfig.TxDecoder()(bz)
	if err != nil {
		return "decode: " + err.Error()
	}
	if w := check(dec, "decoding"); w != "" {
		return w
	}
	for _, i := range order {
		got, err := evmtypes.UnwrapEthereumMsg(&dec, txs[i].Hash())
		if err != nil || got == nil {
			return fmt.Sprintf("unwrap-error: message %d of %d not found by its hash: %v", i, len(txs), err)
		}
		if got.AsTransaction().Hash() != txs[i].Hash() || got.Hash != txs[i].Hash().Hex() {
			return fmt.Sprintf("unwrap-returns-other-message: asked for %s, got %s", txs[i].Hash().Hex(), got.AsTransaction().Hash().Hex())
		}
		if w := check(dec, fmt.Sprintf("unwrapping message %d", i)); w != "" {
			return w
		}
	}
	if _, err := evmtypes.UnwrapEthereumMsg(&dec, common.HexToHash("0x1234")); err == nil {
		return "unwrap-foreign-hash: a hash that is not in the envelope was found"
	}
	return check(dec, "looking up a hash that is not in the envelope")
}
