//go:build verif

package checks

import (
	"bytes"
	"fmt"
	bankpc "github.com/haqq-network/haqq/precompiles/bank"
	distpc "github.com/haqq-network/haqq/precompiles/distribution"
	stakingpc "github.com/haqq-network/haqq/precompiles/staking"
	"math/big"
	"sort"
	"strings"
	"testing"

	sdkmath "cosmossdk.io/math"
	sdk "github.com/cosmos/cosmos-sdk/types"
	distrtypes "github.com/cosmos/cosmos-sdk/x/distribution/types"
	clienttypes "github.com/cosmos/ibc-go/v7/modules/core/02-client/types"
	"github.com/ethereum/go-ethereum/accounts/abi"
	"github.com/ethereum/go-ethereum/common"

	"verif/harness/evmasm"
	"verif/harness/report"
	"verif/harness/vn"
)

func TestC05(t *testing.T) {
	r := report.Start("C05")
	defer r.Finish()
	// (a) precompile calls inside failing frames (fault enumeration over placements × methods)
	placements := []string{"frame-reverts-after-call", "parent-reverts-after-child-returned", "invalid-after-call", "out-of-gas-after-call", "top-level-revert", "precompile-runs-out-of-gas", "precompile-errors-after-partial-writes"}
	methods := pcMethods()
	idx := 0
	reps := r.Cases(2, 40)
	for rep := 0; rep < reps; rep++ {
		for _, pl := range placements {
			for mi := range methods {
				if pl == "precompile-errors-after-partial-writes" && methods[mi].name != "delegate" {
					continue // only delegate has an input that fails after its hooks have already paid out rewards
				}
				id := fmt.Sprintf("pc/%s/%s/%d", pl, methods[mi].name, rep)
				idx++
				if !r.Want(id, idx) {
					continue
				}
				c05Precompile(r, id, pl, methods[mi])
			}
		}
	}
	// (a') EVM state written before a precompile call inside a frame that then fails: every
	// stateful precompile flushes the StateDB into the store when it starts
	fidx := 0
	for rep := 0; rep < r.Cases(3, 40); rep++ {
		for _, v := range c05FlushVariants {
			for _, q := range []string{"staking.delegation(query)", "distribution.delegatorWithdrawAddress(query)", "bank.balances(query)", "staking.delegate(tx)"} {
				for _, endKind := range []string{"revert", "invalid", "out-of-gas"} {
					id := fmt.Sprintf("flush/%s/%s/%s/%d", v, q, endKind, rep)
					fidx++
					if !r.Want(id, fidx) {
						continue
					}
					c05Flush(r, id, v, q, endKind)
				}
			}
		}
	}
	// (a'') several precompile calls in one transaction, some in frames that fail: what remains must
	// be exactly the effect of the native messages of the surviving calls, in order
	for g := 0; g < r.Cases(48, 1200); g++ {
		id := fmt.Sprintf("multi/%d", g)
		fidx++
		if !r.Want(id, fidx) {
			continue
		}
		c05Multi(r, id)
	}
	// (a3) an ICS-20 transfer through the precompile, over a real (loopback) channel, in a frame that fails
	for rep := 0; rep < r.Cases(2, 30); rep++ {
		for _, endKind := range []string{"revert", "invalid", "out-of-gas", "parent-reverts", "none"} {
			for _, who := range []string{"contract-with-grant-spends-signer-funds", "contract-spends-own-funds"} {
				id := fmt.Sprintf("ics20/%s/%s/%d", endKind, who, rep)
				fidx++
				if !r.Want(id, fidx) {
					continue
				}
				c05ICS20(r, id, endKind, who)
			}
		}
	}
	// (a4) an account first seen by the EVM inside the failed frame, after the precompile credited it
	for rep := 0; rep < r.Cases(4, 60); rep++ {
		for _, endKind := range []string{"revert", "invalid", "out-of-gas"} {
			id := fmt.Sprintf("lateload/%s/%d", endKind, rep)
			fidx++
			if !r.Want(id, fidx) {
				continue
			}
			c05LateLoad(r, id, endKind)
		}
	}
	// (b'') call trees with precompile transactions (delegations by the signer) sprinkled over the frames:
	// EVM state against go-ethereum, delegations against the calls made in frames that survive there
	for g := 0; g < r.Cases(24, 1200); g++ {
		id := fmt.Sprintf("evmtx/%d", g)
		fidx++
		if !r.Want(id, fidx) {
			continue
		}
		c05Program(r, id)
	}
	// (b') the same against go-ethereum, with read-only precompile calls sprinkled over the frames
	for g := 0; g < r.Cases(48, 2400); g++ {
		id := fmt.Sprintf("evmq/%d", g)
		fidx++
		if !r.Want(id, fidx) {
			continue
		}
		c05Program(r, id)
	}
	// (b) EVM-only failing frames (storage, balances, logs, creates, self-destructs) vs go-ethereum
	np := r.Cases(96, 4800)
	for g := 0; g < np; g++ {
		id := fmt.Sprintf("evm/%d", g)
		if !r.Want(id, g) {
			continue
		}
		c05Program(r, id)
	}
}

// allowedKey: keys a transaction may change when everything effectful sits in a failed frame.
func c05Residue(d []vn.Change, sender sdk.AccAddress, feeColl sdk.AccAddress, roots []common.Address) (classes []string, lines []string) {
	set := map[string]bool{}
	for _, c := range d {
		switch c.Store {
		case "bank":
			// balance keys: 0x02 | len | addr | denom ; supply 0x00 ; denom-address index 0x03
			if len(c.Key) > 2 && c.Key[0] == 0x02 {
				addr := c.Key[2 : 2+int(c.Key[1])]
				if bytes.Equal(addr, sender) || bytes.Equal(addr, feeColl) {
					continue
				}
			}
		case "acc":
			if len(c.Key) > 1 && c.Key[0] == 0x01 && bytes.Equal(c.Key[1:], sender) {
				continue
			}
		case "evm":
			// storage of the root contracts (result markers): prefix 0x02 | addr | slot
			ok := false
			for _, rt := range roots {
				if len(c.Key) > 21 && c.Key[0] == 0x02 && bytes.Equal(c.Key[1:21], rt.Bytes()) {
					ok = true
				}
			}
			if ok {
				continue
			}
		}
		cls := c.Store
		if c.Store == "bank" && len(c.Key) > 0 && c.Key[0] == 0x00 {
			cls = "bank.supply"
		}
		set[cls] = true
		lines = append(lines, c.String())
	}
	for k := range set {
		classes = append(classes, k)
	}
	sort.Strings(classes)
	return
}

func c05Precompile(r *report.R, id, placement string, m pcMethod) {
	rng := r.Rand(id)
	e := newPcEnv(uint64(r.Seed), rng)
	n := e.n
	r.Eval(1)
	origin := n.Accounts[rng.Intn(4)]
	// build the failing program and its control (same shape, no failure)
	build := func(fail bool) (root common.Address, caller common.Address, gasStipend uint64, err error) {
		var inner []evmasm.Step
		end := func() []evmasm.Step {
			if !fail {
				return nil
			}
			switch placement {
			case "invalid-after-call":
				return []evmasm.Step{evmasm.Invalid{}}
			case "out-of-gas-after-call":
				return []evmasm.Step{evmasm.BurnGas{Loops: 1 << 40}}
			default:
				return []evmasm.Step{evmasm.Revert{}}
			}
		}
		switch placement {
		case "frame-reverts-after-call", "invalid-after-call", "out-of-gas-after-call":
			inner = append([]evmasm.Step{evmasm.Forward{Kind: evmasm.Call, To: m.pc, Fail: evmasm.Bubble}, evmasm.SStore{Slot: 9, Val: 9}, evmasm.Log{Topic: 5}}, end()...)
			d, err := e.deploy(inner, 1000)
			if err != nil {
				return root, caller, 0, err
			}
			g := uint64(0)
			if placement == "out-of-gas-after-call" {
				g = 900_000
			}
			root, err = e.deploy([]evmasm.Step{evmasm.Forward{Kind: evmasm.Call, To: d, Gas: g, Fail: evmasm.Ignore, Record: 1}}, 1000)
			return root, d, 0, err
		case "parent-reverts-after-child-returned":
			child, err := e.deploy([]evmasm.Step{evmasm.Forward{Kind: evmasm.Call, To: m.pc, Fail: evmasm.Bubble}}, 1000)
			if err != nil {
				return root, caller, 0, err
			}
			mid, err := e.deploy(append([]evmasm.Step{evmasm.Forward{Kind: evmasm.Call, To: child, Fail: evmasm.Bubble}, evmasm.SStore{Slot: 9, Val: 9}}, end()...), 1000)
			if err != nil {
				return root, caller, 0, err
			}
			root, err = e.deploy([]evmasm.Step{evmasm.Forward{Kind: evmasm.Call, To: mid, Fail: evmasm.Ignore, Record: 1}}, 1000)
			return root, child, 0, err
		case "top-level-revert":
			root, err = e.deploy(append([]evmasm.Step{evmasm.Forward{Kind: evmasm.Call, To: m.pc, Fail: evmasm.Bubble}, evmasm.SStore{Slot: 9, Val: 9}}, end()...), 1000)
			return root, root, 0, err
		case "precompile-runs-out-of-gas":
			// the gas forwarded to the precompile call is limited (swept by the caller of build)
			return common.Address{}, common.Address{}, 0, nil
		}
		return root, caller, 0, fmt.Errorf("unknown placement")
	}
	approveFor := func(caller common.Address) bool {
		if m.authz == "" {
			return true
		}
		return e.approve(origin, caller, new(big.Int).Mul(big.NewInt(stakeUnit), big.NewInt(100000)), m.authz)
	}
	measure := func(root common.Address, data []byte, gas uint64) ([]vn.Change, bool, uint64, uint64) {
		before := n.Snapshot(n.Ctx())
		res := n.Deliver(n.EthTx(origin, vn.EthArgs{Nonce: n.EthNonce(origin.Eth), To: &root, Gas: gas, GasPrice: big.NewInt(1_000_000_000), Data: data}))
		d := vn.Diff(before, n.Snapshot(n.Ctx()))
		ers := vn.EthResult(res)
		if res.Code != 0 || len(ers) != 1 {
			return d, false, 0, 0
		}
		return d, ers[0].VmError == "", e.slot(root, 1), ers[0].GasUsed
	}
	if placement == "precompile-errors-after-partial-writes" {
		// delegate more than the balance to a validator the signer already delegates to: the
		// message server first withdraws the pending rewards (hook), then fails on the transfer
		root, err := e.deploy([]evmasm.Step{evmasm.Forward{Kind: evmasm.Call, To: m.pc, Fail: evmasm.Ignore, Record: 1}}, 1000)
		if err != nil || !approveFor(root) {
			return
		}
		dels := n.App.StakingKeeper.GetDelegatorDelegations(n.Ctx(), origin.Addr, 5)
		if len(dels) == 0 {
			return
		}
		amt := new(big.Int).Add(n.Balance(origin.Addr, vn.Denom).BigInt(), new(big.Int).Mul(big.NewInt(stakeUnit), big.NewInt(100000)))
		data, _ := e.abiStaking.Pack("delegate", origin.Eth, dels[0].ValidatorAddress, amt)
		// the grant must cover the amount so that the failure comes from the message server
		if !e.approve(origin, root, abi.MaxUint256, m.authz) {
			return
		}
		d, txOK, mark, _ := measure(root, data, 2_000_000)
		if !txOK || mark != 1 {
			r.Note("delegate over balance did not fail as planned: txOK=%v mark=%d", txOK, mark)
			return
		}
		cls, lines := c05Residue(d, origin.Addr, e.feeColl, []common.Address{root})
		if len(cls) > 0 {
			r.Violation(id, fmt.Sprintf("%s|%s|partial-cosmos-writes-survive", m.name, placement), fmt.Sprintf("delegate of more than the balance failed (caught by the caller) but the reward payout made by its hook stayed, stores %s: %v", strings.Join(cls, "+"), trunc(lines, 6)), nil)
			return
		}
		r.Nontriv(m.name + "|" + placement)
		return
	}
	if placement == "precompile-runs-out-of-gas" {
		// control first on a twin-free basis: find how much gas the call needs, then sweep stipends
		ctl, err := e.deploy([]evmasm.Step{evmasm.Forward{Kind: evmasm.Call, To: m.pc, Fail: evmasm.Ignore, Record: 1}}, 1000)
		if err != nil || !approveFor(ctl) {
			return
		}
		// sweep: contracts forwarding a fixed stipend
		points := r.Pick(10, 48)
		lo, hi := uint64(3000), uint64(260000)
		for i := 0; i < points; i++ {
			g := lo + (hi-lo)*uint64(i)/uint64(points-1) + uint64(rng.Intn(97))
			root, err := e.deploy([]evmasm.Step{evmasm.Forward{Kind: evmasm.Call, To: m.pc, Gas: g, Fail: evmasm.Ignore, Record: 1}}, 1000)
			if err != nil || !approveFor(root) {
				return
			}
			data, _ := m.pack(e, origin.Eth, rng)
			d, txOK, mark, _ := measure(root, data, 1_500_000)
			r.Eval(1)
			if !txOK {
				continue
			}
			if mark == 2 {
				r.Count("gas_sweep/call-succeeded", 1)
				continue // enough gas: the call went through, nothing to undo
			}
			cls, lines := c05Residue(d, origin.Addr, e.feeColl, []common.Address{root})
			if len(cls) > 0 {
				r.Violation(id, fmt.Sprintf("%s|%s|partial-cosmos-writes-survive", m.name, placement), fmt.Sprintf("precompile call with a %d gas stipend failed (caught by the caller) but left state behind in stores %s: %v", g, strings.Join(cls, "+"), trunc(lines, 6)), nil)
				return
			}
			r.Count("gas_sweep/failed-without-trace", 1)
			r.Nontriv(fmt.Sprintf("%s|%s|stipend-bucket%d", m.name, placement, g/40000))
		}
		return
	}
	root, caller, _, err := build(true)
	if err != nil || !approveFor(caller) {
		r.Note("setup failed: %v", err)
		return
	}
	data, _ := m.pack(e, origin.Eth, rng)
	d, txOK, mark, _ := measure(root, data, 3_000_000)
	wantTxOK := placement != "top-level-revert"
	if txOK != wantTxOK || (wantTxOK && mark != 1) {
		r.Note("%s/%s did not fail as planned: txOK=%v mark=%d", placement, m.name, txOK, mark)
		return
	}
	cls, lines := c05Residue(d, origin.Addr, e.feeColl, []common.Address{root})
	if len(cls) > 0 {
		r.Violation(id, fmt.Sprintf("%s|%s|cosmos-side-effects-survive", m.name, placement), fmt.Sprintf("the failed frame left state behind in stores %s: %v", strings.Join(cls, "+"), trunc(lines, 8)), map[string]any{"placement": placement, "method": m.name, "stores": cls})
		return
	}
	r.Count("failed_frames_without_trace", 1)
	// control: the same program without the failure must have a Cosmos-side effect
	root2, caller2, _, err := build(false)
	if err != nil || !approveFor(caller2) {
		return
	}
	data2, _ := m.pack(e, origin.Eth, rng)
	d2, ok2, mark2, _ := measure(root2, data2, 3_000_000)
	cls2, _ := c05Residue(d2, origin.Addr, e.feeColl, []common.Address{root2})
	if ok2 && (mark2 == 2 || placement == "top-level-revert") && len(cls2) > 0 {
		r.Count("controls_with_cosmos_effect", 1)
		r.Nontriv(fmt.Sprintf("%s|%s", m.name, placement))
		r.Sample(placement, map[string]any{"method": m.name, "control_effect_stores": cls2})
	} else {
		r.Note("control without effect: %s/%s ok=%v mark=%d", placement, m.name, ok2, mark2)
	}
}

func trunc(l []string, n int) []string {
	if len(l) > n {
		return append(l[:n:n], "…")
	}
	return l
}

// c05Program: EVM-only programs with failing frames; the complete post-state of every
// touched contract (existence, nonce, code, storage, balance) and the number of logs must
// equal what go-ethereum's own state transition produces.
func c05Program(r *report.R, id string) {
	rng := r.Rand(id)
	genSelfDestruct, genPokes, genCreates = true, true, true
	defer func() { genSelfDestruct, genPokes, genCreates, genPcQueries = false, false, false, nil }()
	withTx := strings.HasPrefix(id, "evmtx/")
	var n *vn.Node
	var pe *pcEnv
	if withTx {
		// precompile transactions (delegations by the signer) sprinkled over the frames: needs validators
		pe = newPcEnv(uint64(r.Seed), rng)
		n = pe.n
	} else {
		n = vn.New(vn.Config{Seed: uint64(r.Seed), NumVals: 1, NumAccounts: 8})
	}
	withQueries := strings.HasPrefix(id, "evmq/") || withTx
	if withQueries && !withTx {
		// read-only precompile calls in between: the post-state must still be what go-ethereum
		// computes for the same program (there the addresses are empty accounts)
		pcs := n.App.EvmKeeper.Precompiles(addrDist, addrBank)
		stABI, _ := stakingpc.LoadABI()
		mk := func(a abi.ABI, to common.Address, m string, args ...any) {
			if bz, err := a.Pack(m, args...); err == nil {
				genPcQueries = append(genPcQueries, pcQuery{to, bz, false})
			}
		}
		mk(pcs[addrBank].(*bankpc.Precompile).ABI, addrBank, "balances", n.Accounts[0].Eth)
		mk(pcs[addrDist].(*distpc.Precompile).ABI, addrDist, "delegatorWithdrawAddress", n.Accounts[1].Eth)
		mk(stABI, addrStaking, "validator", n.Vals[0].ValAddr.String())
		mk(stABI, addrStaking, "delegation", n.Accounts[2].Eth, n.Vals[0].ValAddr.String())
	}
	defer func() { gethWatch = nil }()
	deployer := n.Accounts[7]
	nfresh := 0
	fresh := func() common.Address {
		nfresh++
		return vn.DetAccount(uint64(r.Seed)^0x55, id, nfresh).Eth
	}
	eoas := []common.Address{n.Accounts[4].Eth, n.Accounts[5].Eth}
	if !withTx {
		n.BeginBlock(vn.BlockOpts{})
	}
	for k := 0; k < 6; k++ {
		r.Eval(1)
		a := n.Accounts[rng.Intn(4)]
		if withTx {
			// what the frames may call: delegations of the signer's coins (and a query)
			genPcQueries = nil
			for q := 0; q < 4; q++ {
				bz, err := pe.abiStaking.Pack("delegate", a.Eth, n.Vals[rng.Intn(3)].ValAddr.String(), big.NewInt(stakeUnit*int64(1+rng.Intn(9))))
				if err == nil {
					genPcQueries = append(genPcQueries, pcQuery{addrStaking, bz, true})
				}
			}
			if bz, err := pe.abiStaking.Pack("delegation", a.Eth, n.Vals[0].ValAddr.String()); err == nil {
				genPcQueries = append(genPcQueries, pcQuery{addrStaking, bz, false})
			}
		}
		p := genProg(rng, 4, eoas, fresh)
		all, err := deployProg(n, deployer, p)
		if err != nil {
			r.Note("deploy: %v", err)
			continue
		}
		sharesBefore := map[string]sdkmath.Int{}
		if withTx {
			ok := true
			for _, c := range all {
				ok = ok && pe.approve(a, c, new(big.Int).Mul(big.NewInt(stakeUnit), big.NewInt(1_000_000)), "/cosmos.staking.v1beta1.MsgDelegate")
			}
			if !ok {
				r.Note("evmtx approve failed")
				continue
			}
			for _, v := range n.Vals {
				sharesBefore[v.ValAddr.String()] = sdkmath.ZeroInt()
				if d, found := n.App.StakingKeeper.GetDelegation(n.Ctx(), a.Addr, v.ValAddr); found {
					sharesBefore[v.ValAddr.String()] = d.Shares.TruncateInt()
				}
			}
			gethWatch = &watchTracer{watch: addrStaking}
		}
		supplyBefore := n.Supply(vn.Denom)
		to := p.addr
		tx := n.SignEth(a, vn.EthArgs{Data: []byte{1}, Type: rng.Intn(3), Nonce: n.EthNonce(a.Eth), To: &to, Gas: uint64(400000 + rng.Intn(2_000_000)), GasPrice: big.NewInt(1_000_000_000), GasFeeCap: big.NewInt(1_000_000_000), GasTipCap: big.NewInt(1_000_000_000), Value: big.NewInt(int64(rng.Intn(500)))})
		addrs := append(append(all, p.targets()...), a.Eth)
		ref := gethRef(n, tx, nil, addrs)
		if ref.Err != nil {
			r.Note("geth ref: %v", ref.Err)
			continue
		}
		res := n.Deliver(n.WrapEth(tx))
		ers := vn.EthResult(res)
		if res.Code != 0 || len(ers) != 1 {
			continue
		}
		if withQueries && (ers[0].GasUsed*10 > tx.Gas()*9 || ref.UsedGas*10 > tx.Gas()*9) {
			// close to the gas limit the two executions part ways for a reason that is not the subject:
			// a precompile call costs more than a call to an empty account
			r.Count("evm_programs_with_queries_skipped(near gas exhaustion)", 1)
			continue
		}
		failing := strings.Count(p.shape(), "→")
		outcome := "success"
		if ers[0].VmError != "" {
			outcome = "failed"
		}
		fam := "evm-only"
		if withQueries {
			fam = "evm+precompile-queries"
		}
		ctx := n.Ctx()
		bad := false
		dbg := p.addrMap()
		dbg["gasUsed/chain"] = fmt.Sprint(ers[0].GasUsed)
		dbg["gasUsed/reference"] = fmt.Sprint(ref.UsedGas)
		dbg["gasLimit"] = fmt.Sprint(tx.Gas())
		if len(ers[0].Logs) != ref.Logs && !withTx {
			r.Violation(id, fam+"|"+outcome+"|logs≠reference", fmt.Sprintf("%d logs, reference %d; %s", len(ers[0].Logs), ref.Logs, p.shape()), dbg)
			bad = true
		}
		for _, addr := range all {
			if bad {
				break
			}
			acct := n.App.EvmKeeper.GetAccountWithoutBalance(ctx, addr)
			exists := acct != nil
			codeLen := 0
			var nonce uint64
			if acct != nil {
				codeLen = len(n.App.EvmKeeper.GetCode(ctx, common.BytesToHash(acct.CodeHash)))
				nonce = acct.Nonce
			}
			// an account that only exists as an empty shell counts as non-existent on both sides
			refExists := ref.Exists[addr] && (ref.CodeLen[addr] > 0 || ref.Nonces[addr] > 0 || ref.Balances[addr].Sign() > 0)
			gotExists := exists && (codeLen > 0 || nonce > 0 || n.Balance(sdk.AccAddress(addr.Bytes()), vn.Denom).IsPositive())
			if refExists != gotExists || codeLen != ref.CodeLen[addr] {
				r.Violation(id, fam+"|"+outcome+"|contract-existence/code≠reference", fmt.Sprintf("%s exists=%v code=%d, reference exists=%v code=%d; %s", addr.Hex(), gotExists, codeLen, refExists, ref.CodeLen[addr], p.shape()), dbg)
				bad = true
				break
			}
			if gotExists && nonce != ref.Nonces[addr] {
				r.Violation(id, fam+"|"+outcome+"|nonce≠reference", fmt.Sprintf("%s nonce %d reference %d; %s", addr.Hex(), nonce, ref.Nonces[addr], p.shape()), nil)
				bad = true
				break
			}
			if got := n.Balance(sdk.AccAddress(addr.Bytes()), vn.Denom).BigInt(); got.Cmp(ref.Balances[addr]) != 0 {
				r.Violation(id, fam+"|"+outcome+"|balance≠reference", fmt.Sprintf("%s balance %s reference %s; %s", addr.Hex(), got, ref.Balances[addr], p.shape()), nil)
				bad = true
				break
			}
			// every slot that exists before or after on the chain, or before in the reference
			cand := map[common.Hash]bool{}
			for _, k := range ref.PreSlots[addr] {
				cand[k] = true
			}
			post := map[common.Hash]common.Hash{}
			n.App.EvmKeeper.ForEachStorage(ctx, addr, func(k, v common.Hash) bool {
				post[k] = v
				cand[k] = true
				return true
			})
			for s := uint64(0); s < 16; s++ { // the generator's slot ranges
				cand[common.BigToHash(new(big.Int).SetUint64(s))] = true
				cand[common.BigToHash(new(big.Int).SetUint64(100+s))] = true
			}
			for kk := range cand {
				want := common.Hash{}
				if refExists {
					want = ref.DB.GetState(addr, kk)
				}
				if post[kk] != want {
					r.Violation(id, fam+"|"+outcome+"|storage≠reference", fmt.Sprintf("%s slot %s = %s, reference %s; %s", addr.Hex(), kk.Hex(), post[kk].Hex(), want.Hex(), p.shape()), nil)
					bad = true
					break
				}
			}
		}
		if bad {
			break
		}
		if withTx {
			// the Cosmos side: exactly the delegations made in frames that survived in the reference execution
			want := map[string]sdkmath.Int{}
			made, kept := 0, 0
			for _, c := range gethWatch.calls {
				m, err := pe.abiStaking.MethodById(c.Input[:4])
				if err != nil || m.Name != "delegate" {
					continue
				}
				args, err := m.Inputs.Unpack(c.Input[4:])
				if err != nil || len(args) != 3 {
					continue
				}
				made++
				if !c.Survived {
					continue
				}
				kept++
				v := args[1].(string)
				cur, ok := want[v]
				if !ok {
					cur = sdkmath.ZeroInt()
				}
				want[v] = cur.Add(sdkmath.NewIntFromBigInt(args[2].(*big.Int)))
			}
			mismatch := ""
			for _, v := range n.Vals {
				now := sdkmath.ZeroInt()
				if d, found := n.App.StakingKeeper.GetDelegation(ctx, a.Addr, v.ValAddr); found {
					now = d.Shares.TruncateInt()
				}
				w, ok := want[v.ValAddr.String()]
				if !ok {
					w = sdkmath.ZeroInt()
				}
				if got := now.Sub(sharesBefore[v.ValAddr.String()]); !got.Equal(w) {
					mismatch += fmt.Sprintf("validator %s: delegated %s, surviving frames delegated %s; ", v.ValAddr.String()[len(v.ValAddr.String())-6:], got, w)
				}
			}
			if sup := n.Supply(vn.Denom); !sup.Equal(supplyBefore) && !strings.Contains(p.shape(), "selfdestruct") {
				// (a contract that self-destructs naming itself as beneficiary destroys its coins, in
				// go-ethereum as here: only trees without self-destructs are held to a constant supply)
				r.Violation(id, "evm+precompile-transactions|"+outcome+"|supply-changed", fmt.Sprintf("supply %s -> %s; %s", supplyBefore, sup, p.shape()), dbg)
				break
			}
			// every surviving delegation emits one EVM log of the precompile, a dropped one none
			if len(ers[0].Logs) != ref.Logs+kept {
				r.Violation(id, "evm+precompile-transactions|"+outcome+"|logs≠reference+surviving-precompile-events", fmt.Sprintf("%d logs; the reference program emits %d and %d delegations survive; %s", len(ers[0].Logs), ref.Logs, kept, p.shape()), dbg)
				break
			}
			if mismatch != "" {
				r.Violation(id, "evm+precompile-transactions|"+outcome+"|delegations≠calls-in-surviving-frames", fmt.Sprintf("%d delegate calls made, %d in surviving frames: %s%s", made, kept, mismatch, p.shape()), dbg)
				break
			}
			if made > 0 {
				r.Count("evm_programs_with_precompile_transactions_matched", 1)
				if made > kept && kept > 0 {
					r.Count("evm_programs_with_kept_and_dropped_delegations", 1)
				}
				r.Nontriv(fmt.Sprintf("evm+tx|%s|failing-frames%d|made%d|kept%d", outcome, bucket(failing), bucket(made), bucket(kept)))
			}
			continue
		}
		if withQueries {
			nq := strings.Count(p.shape(), "pcquery")
			if nq > 0 {
				r.Count("evm_programs_with_precompile_queries_matched_reference", 1)
				if failing > 0 {
					r.Nontriv(fmt.Sprintf("evm+queries|%s|failing-frames%d|queries%d", outcome, bucket(failing), bucket(nq)))
				}
			}
			continue
		}
		r.Count("evm_programs_matched_reference", 1)
		if failing > 0 {
			r.Count("evm_programs_with_failing_frames", 1)
			sd := strings.Contains(p.shape(), "selfdestruct")
			r.Nontriv(fmt.Sprintf("evm-only|%s|failing-frames%d|selfdestruct=%v", outcome, bucket(failing), sd))
			r.Sample("evm-only", p.shape())
		}
	}
	n.EndBlock()
	n.Commit()
}

var c05FlushVariants = []string{"contract-clean-outside-the-frame", "contract-dirty-outside-the-frame", "frame-created-a-contract", "frame-moved-value", "frame-self-destructed", "no-failure-slots-rewritten-after-the-call"}

// c05Flush: a frame changes EVM state (storage, a created contract, a value transfer, a
// self-destruct), then calls a stateful precompile, then fails; its caller goes on. Nothing the
// frame did may be left in any store.
func c05Flush(r *report.R, id, variant, q, endKind string) {
	rng := r.Rand(id)
	e := newPcEnv(uint64(r.Seed), rng)
	n := e.n
	r.Eval(1)
	origin := n.Accounts[rng.Intn(4)]
	var pc common.Address
	var data []byte
	val := n.Vals[rng.Intn(3)].ValAddr.String()
	switch q {
	case "staking.delegation(query)":
		pc = addrStaking
		data, _ = e.abiStaking.Pack("delegation", origin.Eth, val)
	case "distribution.delegatorWithdrawAddress(query)":
		pc = addrDist
		data, _ = e.abiDist.Pack("delegatorWithdrawAddress", origin.Eth)
	case "bank.balances(query)":
		pc = addrBank
		data, _ = e.abiBank.Pack("balances", origin.Eth)
	default:
		pc = addrStaking
		data, _ = e.abiStaking.Pack("delegate", origin.Eth, val, big.NewInt(stakeUnit*3))
	}
	if len(data) == 0 {
		r.Note("cannot pack %s", q)
		return
	}
	sink := vn.DetAccount(77, "c05sink", rng.Intn(1000)).Eth
	var pre []evmasm.Step
	switch variant {
	case "frame-created-a-contract":
		pre = []evmasm.Step{evmasm.Create{Init: evmasm.InitCode([]evmasm.Step{evmasm.SStore{Slot: 1, Val: 1}}, []evmasm.Step{evmasm.Stop{}}), Fail: evmasm.Bubble}}
	case "frame-moved-value":
		pre = []evmasm.Step{evmasm.Transfer{To: sink, Value: big.NewInt(77)}}
	case "frame-self-destructed":
		// the self-destructing helper is called by the frame before the precompile
	}
	end := []evmasm.Step{evmasm.Revert{}}
	switch endKind {
	case "invalid":
		end = []evmasm.Step{evmasm.Invalid{}}
	case "out-of-gas":
		end = []evmasm.Step{evmasm.BurnGas{Loops: 1 << 40}}
	}
	var helper common.Address
	if variant == "frame-self-destructed" {
		h, err := e.deploy([]evmasm.Step{evmasm.SelfDestruct{To: sink}}, 555)
		if err != nil {
			return
		}
		helper = h
		pre = []evmasm.Step{evmasm.CallStep{Kind: evmasm.Call, To: helper, Data: []byte{1}, Fail: evmasm.Bubble}}
	}
	if variant == "no-failure-slots-rewritten-after-the-call" {
		// no frame fails: what the contract wrote last is what the store must show, whatever the
		// precompile call in between flushed
		if endKind != "revert" {
			return
		}
		d, err := e.deploy([]evmasm.Step{evmasm.SStore{Slot: 8, Val: 8}, evmasm.SStore{Slot: 6, Val: 1}, evmasm.Forward{Kind: evmasm.Call, To: pc, Fail: evmasm.Ignore},
			evmasm.SStore{Slot: 8, Val: 0}, evmasm.SStore{Slot: 6, Val: 6}, evmasm.SStore{Slot: 4, Val: 4}}, 1000)
		if err != nil {
			return
		}
		if q == "staking.delegate(tx)" && !e.approve(origin, d, new(big.Int).Mul(big.NewInt(stakeUnit), big.NewInt(100000)), "/cosmos.staking.v1beta1.MsgDelegate") {
			return
		}
		res := n.Deliver(n.EthTx(origin, vn.EthArgs{Nonce: n.EthNonce(origin.Eth), To: &d, Gas: 3_000_000, GasPrice: big.NewInt(1_000_000_000), Data: data}))
		ers := vn.EthResult(res)
		if res.Code != 0 || len(ers) != 1 || ers[0].VmError != "" {
			r.Note("%s: tx failed", id)
			return
		}
		if a, b, c := e.slot(d, 8), e.slot(d, 6), e.slot(d, 4); a != 0 || b != 6 || c != 4 {
			r.Violation(id, "flush|no-failure|storage-after-precompile-call≠last-written", fmt.Sprintf("contract wrote slot8=8, slot6=1, called %s, then wrote slot8=0, slot6=6, slot4=4; the store shows slot8=%d slot6=%d slot4=%d", q, a, b, c), nil)
			return
		}
		r.Count("rewritten_slots_consistent", 1)
		r.Nontriv("flush|no-failure|" + q)
		return
	}
	inner := []evmasm.Step{evmasm.IfCalldataSize{N: 1, Then: []evmasm.Step{evmasm.SStore{Slot: 5, Val: 5}}}, evmasm.SStore{Slot: 8, Val: 8}, evmasm.Log{Topic: 4}}
	inner = append(inner, pre...)
	inner = append(inner, evmasm.Forward{Kind: evmasm.Call, To: pc, Fail: evmasm.Bubble}, evmasm.SStore{Slot: 9, Val: 9})
	inner = append(inner, end...)
	d, err := e.deploy(inner, 100_000)
	if err != nil {
		r.Note("deploy: %v", err)
		return
	}
	g := uint64(0)
	if endKind == "out-of-gas" {
		g = 900_000
	}
	var rootSteps []evmasm.Step
	if variant == "contract-dirty-outside-the-frame" {
		rootSteps = append(rootSteps, evmasm.CallStep{Kind: evmasm.Call, To: d, Data: []byte{1}, Fail: evmasm.Bubble})
	}
	rootSteps = append(rootSteps, evmasm.Forward{Kind: evmasm.Call, To: d, Gas: g, Fail: evmasm.Ignore, Record: 1}, evmasm.SStore{Slot: 7, Val: 7})
	root, err := e.deploy(rootSteps, 1000)
	if err != nil {
		return
	}
	if q == "staking.delegate(tx)" && !e.approve(origin, d, new(big.Int).Mul(big.NewInt(stakeUnit), big.NewInt(100000)), "/cosmos.staking.v1beta1.MsgDelegate") {
		r.Note("approve failed")
		return
	}
	before := n.Snapshot(n.Ctx())
	res := n.Deliver(n.EthTx(origin, vn.EthArgs{Nonce: n.EthNonce(origin.Eth), To: &root, Gas: 3_000_000, GasPrice: big.NewInt(1_000_000_000), Data: data}))
	diff := vn.Diff(before, n.Snapshot(n.Ctx()))
	ers := vn.EthResult(res)
	if res.Code != 0 || len(ers) != 1 || ers[0].VmError != "" || e.slot(root, 1) != 1 {
		r.Note("%s did not fail as planned: code=%d mark=%d", id, res.Code, e.slot(root, 1))
		return
	}
	// what may change: the signer's account and balance, the fee collector, the root's marker
	// slots, and slot 5 of the inner contract when it was written outside the failed frame
	kinds := map[string][]string{}
	isZero := func(b []byte) bool {
		for _, x := range b {
			if x != 0 {
				return false
			}
		}
		return true
	}
	accNumKeys := 0
	for _, c := range diff {
		switch c.Store {
		case "bank":
			if len(c.Key) > 2 && c.Key[0] == 0x02 {
				addr := c.Key[2 : 2+int(c.Key[1])]
				if bytes.Equal(addr, origin.Addr) || bytes.Equal(addr, e.feeColl) {
					continue
				}
				if q == "staking.delegate(tx)" && bytes.Equal(addr, vn.ModuleAddr("bonded_tokens_pool")) {
					kinds["cosmos-side"] = append(kinds["cosmos-side"], c.String())
					continue
				}
				// a balance moved by the failed frame is EVM-side state (the EVM keeps balances in the bank)
				kinds["balance-moved-by-the-frame"] = append(kinds["balance-moved-by-the-frame"], c.String())
				continue
			}
			kinds["cosmos-side"] = append(kinds["cosmos-side"], c.String())
		case "acc":
			switch {
			case len(c.Key) > 1 && c.Key[0] == 0x01 && bytes.Equal(c.Key[1:], origin.Addr):
				continue
			case len(c.Key) > 1 && c.Key[0] == 0x01 && bytes.Equal(c.Key[1:], pc.Bytes()):
				kinds["account-of-the-precompile-address-created"] = append(kinds["account-of-the-precompile-address-created"], c.String())
			case len(c.Key) > 1 && c.Key[0] == 0x01 && c.Old == nil:
				kinds["account-created-by-the-frame"] = append(kinds["account-created-by-the-frame"], c.String())
			case len(c.Key) > 1 && c.Key[0] == 0x01 && c.New == nil:
				kinds["account-deleted-by-the-frame"] = append(kinds["account-deleted-by-the-frame"], c.String())
			case len(c.Key) > 1 && c.Key[0] == 0x01:
				kinds["account-changed-by-the-frame(nonce/code-hash)"] = append(kinds["account-changed-by-the-frame(nonce/code-hash)"], c.String())
			default:
				accNumKeys++ // account-number index and counter: consequences of a created/deleted account
			}
		case "evm":
			if len(c.Key) > 21 && c.Key[0] == 0x02 && bytes.Equal(c.Key[1:21], root.Bytes()) {
				continue
			}
			if len(c.Key) == 53 && c.Key[0] == 0x02 && bytes.Equal(c.Key[1:21], d.Bytes()) && c.Key[52] == 5 && variant == "contract-dirty-outside-the-frame" {
				continue
			}
			if len(c.Key) == 53 && c.Key[0] == 0x02 {
				if isZero(c.Old) && isZero(c.New) {
					continue // an absent slot and a slot holding zero are the same storage value
				}
				kinds["storage-written-by-the-frame"] = append(kinds["storage-written-by-the-frame"], c.String())
				continue
			}
			kinds["code-stored-by-the-frame"] = append(kinds["code-stored-by-the-frame"], c.String())
		default:
			kinds["cosmos-side"] = append(kinds["cosmos-side"], c.String())
		}
	}
	kind := "query"
	if strings.HasSuffix(q, "(tx)") {
		kind = "tx"
	}
	bad := false
	var ks []string
	for k := range kinds {
		ks = append(ks, k)
	}
	sort.Strings(ks)
	for _, k := range ks {
		if k == "cosmos-side" && kind == "tx" {
			continue // the Cosmos-side effects of precompile transactions in failed frames: judged by the placements above
		}
		bad = true
		r.Violation(id, fmt.Sprintf("flush|%s|precompile-%s|%s|%s", variant, kind, endKind, k),
			fmt.Sprintf("a frame changed EVM state, called %s and then failed (%s); its caller went on, but the store still shows: %v", q, endKind, trunc(kinds[k], 4)),
			map[string]any{"variant": variant, "precompile": q, "end": endKind, "all_kinds": ks})
	}
	if bad {
		return
	}
	r.Count("flushed_frames_without_evm_trace", 1)
	r.Nontriv(fmt.Sprintf("flush|%s|%s|%s", variant, q, endKind))
}

// c05Multi: k precompile calls in one transaction, each in its own frame (flat: siblings under the
// root; nested: each frame calls the next after its own precompile call); a PRNG-chosen subset of
// the frames fails after the call. Oracle: bank balances of every account, the signer's
// delegations and withdraw address after the transaction equal what the native messages of the
// surviving calls produce on a cache branch of the same state; marker slots of failed frames are
// unwritten.
func c05Multi(r *report.R, id string) {
	rng := r.Rand(id)
	e := newPcEnv(uint64(r.Seed), rng)
	n := e.n
	r.Eval(1)
	origin := n.Accounts[rng.Intn(4)]
	all := pcMethods()
	var pool []pcMethod
	for _, m := range all {
		switch m.name {
		case "delegate", "undelegate", "redelegate", "withdrawDelegatorRewards", "setWithdrawAddress":
			pool = append(pool, m)
		}
	}
	k := 2 + rng.Intn(3)
	nested := rng.Intn(2) == 0
	type call struct {
		m    pcMethod
		data []byte
		msg  sdk.Msg
		fail bool
		addr common.Address
	}
	calls := make([]call, k)
	pattern := ""
	anyFail, anyKeep := false, false
	for i := range calls {
		m := pool[rng.Intn(len(pool))]
		if m.name == "redelegate" && i > 0 {
			m = pool[0] // at most one redelegation (a second one from the same source may be refused as transitive)
		}
		data, msg := m.pack(e, origin.Eth, rng)
		calls[i] = call{m: m, data: data, msg: msg, fail: rng.Intn(2) == 0}
	}
	if !nested {
		calls[rng.Intn(k)].fail = true
		j := rng.Intn(k)
		calls[j].fail = false
	}
	if nested {
		calls[0].fail = false // otherwise nothing survives
		calls[1+rng.Intn(k-1)].fail = true
	}
	for _, c := range calls {
		if c.fail {
			pattern += "F"
			anyFail = true
		} else {
			pattern += "K"
			anyKeep = true
		}
	}
	if !anyFail || !anyKeep {
		return
	}
	// deploy from the innermost outwards (a nested frame needs its child's address)
	for i := k - 1; i >= 0; i-- {
		steps := []evmasm.Step{evmasm.Forward{Kind: evmasm.Call, To: calls[i].m.pc, Fail: evmasm.Bubble}}
		if nested && i+1 < k {
			steps = append(steps, evmasm.CallStep{Kind: evmasm.Call, To: calls[i+1].addr, Data: calls[i+1].data, Fail: evmasm.Ignore, Record: 2})
		}
		steps = append(steps, evmasm.SStore{Slot: 9, Val: 9})
		if calls[i].fail {
			steps = append(steps, evmasm.Revert{})
		}
		a, err := e.deploy(steps, 1000)
		if err != nil {
			r.Note("multi deploy: %v", err)
			return
		}
		calls[i].addr = a
		if calls[i].m.authz != "" && !e.approve(origin, a, new(big.Int).Mul(big.NewInt(stakeUnit), big.NewInt(100000)), calls[i].m.authz) {
			r.Note("multi approve failed")
			return
		}
	}
	var rootSteps []evmasm.Step
	if nested {
		rootSteps = []evmasm.Step{evmasm.CallStep{Kind: evmasm.Call, To: calls[0].addr, Data: calls[0].data, Fail: evmasm.Ignore, Record: 1}}
	} else {
		for i, c := range calls {
			rootSteps = append(rootSteps, evmasm.CallStep{Kind: evmasm.Call, To: c.addr, Data: c.data, Fail: evmasm.Ignore, Record: uint64(i + 1)})
		}
	}
	root, err := e.deploy(rootSteps, 1000)
	if err != nil {
		return
	}
	// which calls survive
	survive := make([]bool, k)
	dead := false
	for i, c := range calls {
		if nested {
			survive[i] = !dead
		} else {
			survive[i] = !c.fail
		}
		_ = c
	}
	if nested {
		// frame i survives iff no frame 0..i fails
		dead = false
		for i := range calls {
			if calls[i].fail {
				dead = true
			}
			survive[i] = !dead
		}
	}
	var msgs []sdk.Msg
	for i, c := range calls {
		if survive[i] {
			msgs = append(msgs, c.msg)
		}
	}
	want, nerr := e.nativeEffects(msgs)
	if nerr != nil {
		r.Count("multi_native_reference_failed(skipped)", 1)
		return
	}
	// reference for delegations and withdraw address: the same messages on a cache branch
	refDel := func() (map[string]string, string) {
		cctx, _ := n.Ctx().CacheContext()
		cctx = cctx.WithGasMeter(sdk.NewInfiniteGasMeter())
		for _, m := range msgs {
			if _, err := n.App.MsgServiceRouter().Handler(m)(cctx, m); err != nil {
				return nil, ""
			}
		}
		out := map[string]string{}
		for _, d := range n.App.StakingKeeper.GetDelegatorDelegations(cctx, origin.Addr, 20) {
			out[d.ValidatorAddress] = d.Shares.String()
		}
		return out, n.App.DistrKeeper.GetDelegatorWithdrawAddr(cctx, origin.Addr).String()
	}
	wantDel, wantW := refDel()
	before, _ := e.balances()
	res := n.Deliver(n.EthTx(origin, vn.EthArgs{Nonce: n.EthNonce(origin.Eth), To: &root, Gas: 6_000_000, GasPrice: big.NewInt(1_000_000_000), Data: []byte{1}}))
	ers := vn.EthResult(res)
	if res.Code != 0 || len(ers) != 1 || ers[0].VmError != "" {
		r.Note("multi tx failed at top level: %.100s", res.Log)
		return
	}
	// did every frame end as planned? marker slot 9: written iff the frame survived
	for i, c := range calls {
		if got := e.slot(c.addr, 9); (got == 9) != survive[i] {
			if survive[i] {
				r.Count("multi_surviving_call_failed(skipped)", 1)
				return // a call planned to succeed was refused (e.g. nothing to undelegate): not a case
			}
			r.Violation(id, fmt.Sprintf("multi|%s|%s|marker-slot-of-failed-frame-written", shapeName(nested), pattern), fmt.Sprintf("frame %d failed but its storage write is in the store", i), nil)
			return
		}
	}
	after, _ := e.balances()
	got := balDelta(before, after)
	fee := sdkmath.NewIntFromUint64(ers[0].GasUsed).MulRaw(1_000_000_000)
	adj := func(m map[string]sdkmath.Int, k string, d sdkmath.Int) {
		v, ok := m[k]
		if !ok {
			v = sdkmath.ZeroInt()
		}
		v = v.Add(d)
		if v.IsZero() {
			delete(m, k)
		} else {
			m[k] = v
		}
	}
	adj(got, origin.Eth.Hex(), fee)
	adj(got, common.BytesToAddress(e.feeColl).Hex(), fee.Neg())
	names := e.names(map[string]string{origin.Eth.Hex(): "signer"})
	desc := ""
	for i, c := range calls {
		desc += fmt.Sprintf("%d:%s(%s) ", i, c.m.name, map[bool]string{true: "kept", false: "undone"}[survive[i]])
	}
	if deltaStr(got, names) != deltaStr(want, names) {
		r.Violation(id, fmt.Sprintf("multi|%s|%s|balances≠native-messages-of-surviving-calls", shapeName(nested), pattern),
			fmt.Sprintf("calls %s: balance changes %s; the native messages of the surviving calls give %s", desc, deltaStr(got, names), deltaStr(want, names)), nil)
		return
	}
	gotDel := map[string]string{}
	for _, d := range n.App.StakingKeeper.GetDelegatorDelegations(n.Ctx(), origin.Addr, 20) {
		gotDel[d.ValidatorAddress] = d.Shares.String()
	}
	if fmt.Sprint(gotDel) != fmt.Sprint(wantDel) || n.App.DistrKeeper.GetDelegatorWithdrawAddr(n.Ctx(), origin.Addr).String() != wantW {
		r.Violation(id, fmt.Sprintf("multi|%s|%s|delegations-or-withdraw-address≠native-messages-of-surviving-calls", shapeName(nested), pattern),
			fmt.Sprintf("calls %s: delegations %v withdraw %s; reference %v %s", desc, gotDel, n.App.DistrKeeper.GetDelegatorWithdrawAddr(n.Ctx(), origin.Addr), wantDel, wantW), nil)
		return
	}
	r.Count("multi_call_transactions_equal_to_native", 1)
	r.Nontriv(fmt.Sprintf("multi|%s|%s", shapeName(nested), pattern))
}

func shapeName(nested bool) string {
	if nested {
		return "nested"
	}
	return "siblings"
}

// c05ICS20: a frame sends an ICS-20 transfer through the precompile (escrow, packet commitment,
// sequence counter, spent allowance) and then fails; its caller goes on. Nothing may remain. The
// control (endKind "none") must leave all of it.
func c05ICS20(r *report.R, id, endKind, who string) {
	rng := r.Rand(id)
	e := newPcEnv(uint64(r.Seed), rng)
	n := e.n
	r.Eval(1)
	lb, err := n.OpenLoopback(n.Accounts[7])
	if err != nil {
		r.Inconcl("loopback: %v", err)
		return
	}
	origin := n.Accounts[rng.Intn(4)]
	amt := big.NewInt(int64(1000 + rng.Intn(100000)))
	end := []evmasm.Step{}
	switch endKind {
	case "revert", "parent-reverts":
		end = []evmasm.Step{evmasm.Revert{}}
	case "invalid":
		end = []evmasm.Step{evmasm.Invalid{}}
	case "out-of-gas":
		end = []evmasm.Step{evmasm.BurnGas{Loops: 1 << 40}}
	}
	inner := []evmasm.Step{evmasm.SStore{Slot: 8, Val: 8}, evmasm.Forward{Kind: evmasm.Call, To: addrICS20, Fail: evmasm.Bubble}, evmasm.SStore{Slot: 9, Val: 9}}
	if endKind != "parent-reverts" {
		inner = append(inner, end...)
	}
	d, err := e.deploy(inner, 10_000_000)
	if err != nil {
		return
	}
	g := uint64(0)
	if endKind == "out-of-gas" {
		g = 1_200_000
	}
	target := d
	if endKind == "parent-reverts" {
		mid, err := e.deploy(append([]evmasm.Step{evmasm.Forward{Kind: evmasm.Call, To: d, Fail: evmasm.Bubble}, evmasm.SStore{Slot: 9, Val: 9}}, end...), 1000)
		if err != nil {
			return
		}
		target = mid
	}
	root, err := e.deploy([]evmasm.Step{evmasm.Forward{Kind: evmasm.Call, To: target, Gas: g, Fail: evmasm.Ignore, Record: 1}, evmasm.SStore{Slot: 7, Val: 7}}, 1000)
	if err != nil {
		return
	}
	sender := origin.Eth
	if who == "contract-spends-own-funds" {
		sender = d // the calling contract is the sender (the precompile still asks for the signer's grant to it)
	}
	{
		type abiCoin struct {
			Denom  string
			Amount *big.Int
		}
		type abiAlloc struct {
			SourcePort    string
			SourceChannel string
			SpendLimit    []abiCoin
			AllowList     []string
		}
		data, err := e.abiICS20.Pack("approve", d, []abiAlloc{{"transfer", lb.A, []abiCoin{{vn.Denom, new(big.Int).Mul(amt, big.NewInt(3))}}, nil}})
		if err != nil {
			r.Note("pack approve: %v", err)
			return
		}
		to := addrICS20
		res := n.Deliver(n.EthTx(origin, vn.EthArgs{Nonce: n.EthNonce(origin.Eth), To: &to, Gas: 1_500_000, GasPrice: big.NewInt(1_000_000_000), Data: data}))
		if ers := vn.EthResult(res); res.Code != 0 || len(ers) != 1 || ers[0].VmError != "" {
			r.Note("ics20 approve failed: %.100s", res.Log)
			return
		}
	}
	data, err := e.abiICS20.Pack("transfer", "transfer", lb.A, vn.Denom, amt, sender, n.Accounts[5].Addr.String(), clienttypes.NewHeight(1, 10_000_000), uint64(0), "")
	if err != nil {
		r.Note("pack transfer: %v", err)
		return
	}
	before := n.Snapshot(n.Ctx())
	res := n.Deliver(n.EthTx(origin, vn.EthArgs{Nonce: n.EthNonce(origin.Eth), To: &root, Gas: 4_000_000, GasPrice: big.NewInt(1_000_000_000), Data: data}))
	diff := vn.Diff(before, n.Snapshot(n.Ctx()))
	ers := vn.EthResult(res)
	if res.Code != 0 || len(ers) != 1 || ers[0].VmError != "" {
		r.Note("%s: top-level failure %.80s", id, res.Log)
		return
	}
	mark := e.slot(root, 1)
	cls, lines := c05Residue(diff, origin.Addr, e.feeColl, []common.Address{root})
	if endKind == "none" {
		_, sent := vn.PacketFromEvents(res.Events)
		hasIBC := false
		for _, c := range cls {
			if c == "ibc" {
				hasIBC = true
			}
		}
		if mark == 2 && sent && hasIBC {
			r.Count("ics20_controls_with_packet", 1)
			r.Nontriv("ics20|control|" + who)
		} else {
			r.Note("ics20 control without effect: mark=%d sent=%v stores=%v", mark, sent, cls)
		}
		return
	}
	if mark != 1 {
		r.Note("%s did not fail as planned (mark %d)", id, mark)
		return
	}
	if _, sent := vn.PacketFromEvents(res.Events); sent {
		r.Violation(id, fmt.Sprintf("ics20-transfer|%s|%s|send_packet-event-of-failed-frame-emitted", endKind, who), "the transaction's events announce a packet that the failed frame sent", nil)
		return
	}
	if len(cls) > 0 {
		r.Violation(id, fmt.Sprintf("ics20-transfer|%s|%s|state-of-failed-frame-survives", endKind, who),
			fmt.Sprintf("a frame sent an ICS-20 transfer through the precompile and then failed (%s); stores %s still show it: %v", endKind, strings.Join(cls, "+"), trunc(lines, 6)), nil)
		return
	}
	r.Count("ics20_failed_frames_without_trace", 1)
	r.Nontriv(fmt.Sprintf("ics20|%s|%s", endKind, who))
}

// c05LateLoad: a frame calls a precompile that credits an account W the EVM has not seen yet, then
// reads W's balance (so W is loaded into the StateDB with the credited balance), then fails; after
// the failure was caught, W is sent some value and thereby becomes dirty. The credit belongs to the
// failed frame: W must end with exactly the value sent, the supply must not move, nothing else may
// change.
func c05LateLoad(r *report.R, id, endKind string) {
	rng := r.Rand(id)
	e := newPcEnv(uint64(r.Seed), rng)
	n := e.n
	r.Eval(1)
	origin := n.Accounts[rng.Intn(4)]
	w := vn.DetAccount(uint64(r.Seed)^0x5151, id, 1)
	// rewards of the signer go to W from now on
	e.mustCosmos(origin, &distrtypes.MsgSetWithdrawAddress{DelegatorAddress: origin.Addr.String(), WithdrawAddress: w.Addr.String()})
	e.nextBlock()
	dels := n.App.StakingKeeper.GetDelegatorDelegations(n.Ctx(), origin.Addr, 5)
	if len(dels) == 0 {
		return
	}
	data, err := e.abiDist.Pack("withdrawDelegatorRewards", origin.Eth, dels[0].ValidatorAddress)
	if err != nil {
		return
	}
	end := []evmasm.Step{evmasm.Revert{}}
	switch endKind {
	case "invalid":
		end = []evmasm.Step{evmasm.Invalid{}}
	case "out-of-gas":
		end = []evmasm.Step{evmasm.BurnGas{Loops: 1 << 40}}
	}
	load := append(append([]byte{0x73}, w.Eth.Bytes()...), 0x31, 0x50) // PUSH20 W; BALANCE; POP
	inner := append([]evmasm.Step{evmasm.Forward{Kind: evmasm.Call, To: addrDist, Fail: evmasm.Bubble}, evmasm.Raw{Code: load}, evmasm.SStore{Slot: 9, Val: 9}}, end...)
	d, err := e.deploy(inner, 1000)
	if err != nil {
		return
	}
	g := uint64(0)
	if endKind == "out-of-gas" || endKind == "invalid" {
		g = 900_000 // both burn everything they are given: leave the root enough to go on
	}
	sent := int64(1 + rng.Intn(500))
	root, err := e.deploy([]evmasm.Step{evmasm.Forward{Kind: evmasm.Call, To: d, Gas: g, Fail: evmasm.Ignore, Record: 1}, evmasm.Transfer{To: w.Eth, Value: big.NewInt(sent)}}, 100_000)
	if err != nil {
		return
	}
	supBefore := n.Supply(vn.Denom)
	wBefore := n.Balance(w.Addr, vn.Denom)
	before := n.Snapshot(n.Ctx())
	res := n.Deliver(n.EthTx(origin, vn.EthArgs{Nonce: n.EthNonce(origin.Eth), To: &root, Gas: 3_000_000, GasPrice: big.NewInt(1_000_000_000), Data: data}))
	diff := vn.Diff(before, n.Snapshot(n.Ctx()))
	ers := vn.EthResult(res)
	if res.Code != 0 || len(ers) != 1 || ers[0].VmError != "" || e.slot(root, 1) != 1 {
		r.Note("%s did not go as planned: code=%d mark=%d", id, res.Code, e.slot(root, 1))
		return
	}
	if got := n.Balance(w.Addr, vn.Denom).Sub(wBefore); !got.Equal(sdkmath.NewInt(sent)) {
		r.Violation(id, fmt.Sprintf("late-load|%s|account-credited-in-failed-frame-keeps-the-credit", endKind),
			fmt.Sprintf("W received %s although only %d was sent to it outside the failed frame (the reward withdrawal to W happened inside the failed frame)", got, sent), nil)
		return
	}
	if sup := n.Supply(vn.Denom); !sup.Equal(supBefore) {
		r.Violation(id, fmt.Sprintf("late-load|%s|supply-changed", endKind), fmt.Sprintf("supply %s -> %s", supBefore, sup), nil)
		return
	}
	var rest []string
	for _, c := range diff {
		switch c.Store {
		case "bank":
			if len(c.Key) > 2 && c.Key[0] == 0x02 {
				addr := c.Key[2 : 2+int(c.Key[1])]
				if bytes.Equal(addr, origin.Addr) || bytes.Equal(addr, e.feeColl) || bytes.Equal(addr, w.Addr) || bytes.Equal(addr, root.Bytes()) {
					continue
				}
			}
			if len(c.Key) > 1 && c.Key[0] == 0x03 && bytes.HasSuffix(c.Key, w.Addr) {
				continue // denom -> holder index: W holds the denomination now (the value sent to it)
			}
		case "acc":
			if len(c.Key) > 1 && c.Key[0] == 0x01 && (bytes.Equal(c.Key[1:], origin.Addr) || bytes.Equal(c.Key[1:], w.Addr) || bytes.Equal(c.Key[1:], addrDist.Bytes())) {
				continue
			}
			if len(c.Key) > 0 && c.Key[0] != 0x01 {
				continue // account-number index / counter of the accounts created above
			}
		case "evm":
			if len(c.Key) > 21 && c.Key[0] == 0x02 && bytes.Equal(c.Key[1:21], root.Bytes()) {
				continue
			}
		}
		rest = append(rest, c.String())
	}
	if len(rest) > 0 {
		r.Violation(id, fmt.Sprintf("late-load|%s|state-of-failed-frame-survives", endKind), fmt.Sprintf("%v", trunc(rest, 6)), nil)
		return
	}
	r.Count("late_loaded_accounts_clean", 1)
	r.Nontriv("late-load|" + endKind)
}
