//go:build verif

package checks

import (
	"fmt"
	abci "github.com/cometbft/cometbft/abci/types"
	"math/big"
	"math/rand"
	"strings"
	"testing"
	"time"

	sdkmath "cosmossdk.io/math"
	sdk "github.com/cosmos/cosmos-sdk/types"
	"github.com/cosmos/cosmos-sdk/types/query"
	banktypes "github.com/cosmos/cosmos-sdk/x/bank/types"
	distrtypes "github.com/cosmos/cosmos-sdk/x/distribution/types"
	stakingkeeper "github.com/cosmos/cosmos-sdk/x/staking/keeper"
	stakingtypes "github.com/cosmos/cosmos-sdk/x/staking/types"
	"github.com/ethereum/go-ethereum/accounts/abi"
	"github.com/ethereum/go-ethereum/common"
	ethtypes "github.com/ethereum/go-ethereum/core/types"

	"verif/harness/report"
	"verif/harness/vn"
)

func TestC16(t *testing.T) {
	r := report.Start("C16")
	defer r.Finish()
	ng := r.Cases(48, 2400)
	for g := 0; g < ng; g++ {
		id := fmt.Sprintf("state/%d", g)
		if !r.Want(id, g) {
			continue
		}
		c16State(r, id)
	}
}

var u255 = new(big.Int).Lsh(big.NewInt(1), 255)

// evmCall runs a call message from `from` to a precompile on ctx (committing the StateDB
// into ctx) and returns the response.
func evmCall(e *pcEnv, ctx sdk.Context, from, to common.Address, data []byte, commit bool) (ok bool, ret []byte, vmErr string, err error) {
	msg := ethtypes.NewMessage(from, &to, e.n.App.EvmKeeper.GetNonce(ctx, from), big.NewInt(0), 5_000_000, big.NewInt(0), big.NewInt(0), big.NewInt(0), data, nil, true)
	res, err := e.n.App.EvmKeeper.ApplyMessage(ctx, msg, nil, commit)
	if err != nil {
		return false, nil, "", err
	}
	return res.VmError == "", res.Ret, res.VmError, nil
}

func c16Filter(d []vn.Change) []string {
	var out []string
	for _, c := range d {
		switch c.Store {
		case "evm", "acc", "feemarket":
			continue // EVM bookkeeping (nonce, logs, precompile address account); not Cosmos business state
		}
		out = append(out, c.Store+"/"+fmt.Sprintf("%x", c.Key)+"="+fmt.Sprintf("%x", c.New))
	}
	return out
}

func firstDiff(a, b []string) string {
	am := map[string]bool{}
	for _, x := range a {
		am[x] = true
	}
	bm := map[string]bool{}
	for _, x := range b {
		bm[x] = true
	}
	for _, x := range a {
		if !bm[x] {
			return "only-native:" + x[:min(len(x), 120)]
		}
	}
	for _, x := range b {
		if !am[x] {
			return "only-precompile:" + x[:min(len(x), 120)]
		}
	}
	return ""
}

func min(a, b int) int {
	if a < b {
		return a
	}
	return b
}

func storeOf(s string) string {
	if i := strings.Index(s, ":"); i >= 0 {
		s = s[i+1:]
	}
	if i := strings.Index(s, "/"); i >= 0 {
		return s[:i]
	}
	return s
}

func c16State(r *report.R, id string) {
	rng := r.Rand(id)
	e := newPcEnv(uint64(r.Seed), rng)
	n := e.n
	// a paired denom for the bank precompile
	meta := banktypes.Metadata{Description: "t", Base: "utest", Display: "test", Name: "test", Symbol: "TEST",
		DenomUnits: []*banktypes.DenomUnit{{Denom: "utest", Exponent: 0}, {Denom: "test", Exponent: 6}}}
	vn.Must(n.App.BankKeeper.MintCoins(n.Ctx(), "erc20", sdk.NewCoins(sdk.NewInt64Coin("utest", 1_000_000))))
	vn.Must(n.App.BankKeeper.SendCoinsFromModuleToAccount(n.Ctx(), "erc20", n.Accounts[0].Addr, sdk.NewCoins(sdk.NewInt64Coin("utest", 400_000))))
	vn.Must(n.App.BankKeeper.SendCoinsFromModuleToAccount(n.Ctx(), "erc20", n.Accounts[1].Addr, sdk.NewCoins(sdk.NewInt64Coin("utest", 600_000))))
	if _, err := n.App.Erc20Keeper.RegisterCoin(n.Ctx(), meta); err != nil {
		r.Note("register coin: %v", err)
	}
	// a redelegation and a jailed validator make the state richer
	a3 := n.Accounts[3]
	if dels := n.App.StakingKeeper.GetDelegatorDelegations(n.Ctx(), a3.Addr, 5); len(dels) > 0 {
		dst := n.Vals[0].ValAddr.String()
		if dst == dels[0].ValidatorAddress {
			dst = n.Vals[1].ValAddr.String()
		}
		n.Deliver(n.CosmosTx(vn.CosmosArgs{Msgs: []sdk.Msg{&stakingtypes.MsgBeginRedelegate{DelegatorAddress: a3.Addr.String(), ValidatorSrcAddress: dels[0].ValidatorAddress, ValidatorDstAddress: dst, Amount: sdk.NewCoin(vn.Denom, sdkmath.NewInt(stakeUnit*7))}}, Gas: 2_000_000, Fee: vn.Coins(2_000_000)}, a3))
	}
	// some delegators have their rewards paid to another account
	redirected := 0
	if rng.Intn(2) == 0 {
		for i := 0; i < 1+rng.Intn(3); i++ {
			o, w := n.Accounts[rng.Intn(4)], n.Accounts[5+rng.Intn(3)]
			if res := n.Deliver(n.CosmosTx(vn.CosmosArgs{Msgs: []sdk.Msg{&distrtypes.MsgSetWithdrawAddress{DelegatorAddress: o.Addr.String(), WithdrawAddress: w.Addr.String()}}, Gas: 500_000, Fee: vn.Coins(500_000)}, o)); res.Code == 0 {
				redirected++
			}
		}
	}
	e.nextBlock()
	stateCls := "delegations+ubd+redelegation+rewards"
	if redirected > 0 {
		stateCls += "+redirected-withdraw-address"
		r.Count("states_with_a_redirected_withdraw_address", 1)
	}
	if rng.Intn(2) == 0 {
		// a validator is slashed for an infraction older than the unbonding / redelegation entries:
		// their balances drop below their initial balances
		vi := 1 + rng.Intn(2)
		// preferably the destination of the pending redelegation (its entries then report a balance below the initial one)
		if reds := n.App.StakingKeeper.GetRedelegations(n.Ctx(), n.Accounts[3].Addr, 5); len(reds) > 0 && rng.Intn(3) > 0 {
			for i, v := range n.Vals {
				if v.ValAddr.String() == reds[0].ValidatorDstAddress {
					vi = i
				}
			}
		}
		if v, found := n.App.StakingKeeper.GetValidator(n.Ctx(), n.Vals[vi].ValAddr); found && !v.IsUnbonded() {
			n.EndBlock()
			n.Commit()
			n.BeginBlock(vn.BlockOpts{Dt: 2 * time.Second, Evidence: []abci.Misbehavior{n.DoubleSignEvidence(vi, 2, n.Time.Add(-8*time.Second))}})
			stateCls += "+slashed-entries"
			r.Count("states_with_slashed_unbonding_entries", 1)
		}
	}

	valArg := func() (string, string) {
		switch rng.Intn(6) {
		case 0:
			return vn.DetAccount(3, "nov", 1).Addr.String(), "account-not-validator(acc prefix)"
		case 1:
			return sdk.ValAddress(vn.DetAccount(3, "nov", 2).Addr).String(), "unknown-validator"
		case 2:
			return "haqqvaloper1xyz", "malformed"
		default:
			return n.Vals[rng.Intn(3)].ValAddr.String(), "valid"
		}
	}
	amtArg := func(ref sdkmath.Int) (*big.Int, string) {
		switch rng.Intn(8) {
		case 0:
			return big.NewInt(0), "0"
		case 1:
			return big.NewInt(1), "1"
		case 2:
			return ref.BigInt(), "exact"
		case 3:
			return ref.AddRaw(1).BigInt(), "exact+1"
		case 4:
			return new(big.Int).Set(u255), "2^255"
		case 5:
			return new(big.Int).Set(abi.MaxUint256), "2^256-1"
		default:
			return big.NewInt(stakeUnit * int64(1+rng.Intn(9))), "typical"
		}
	}
	ncase := r.Pick(40, 60)
	for k := 0; k < ncase; k++ {
		r.Eval(1)
		owner := n.Accounts[rng.Intn(4)]
		ctx := n.Ctx()
		if rng.Intn(3) == 0 {
			c16Query(r, e, id, rng, owner, stateCls)
			continue
		}
		// ---- transaction methods ----
		var data []byte
		var native sdk.Msg
		var mname, argCls string
		pc := addrStaking
		dels := n.App.StakingKeeper.GetDelegatorDelegations(ctx, owner.Addr, 10)
		delAmt := sdkmath.NewInt(stakeUnit * 500)
		ownVal := n.Vals[0].ValAddr.String()
		if len(dels) > 0 {
			d := dels[rng.Intn(len(dels))]
			ownVal = d.ValidatorAddress
			if v, found := n.App.StakingKeeper.GetValidator(ctx, d.GetValidatorAddr()); found {
				delAmt = v.TokensFromShares(d.Shares).TruncateInt()
			}
		}
		bal := n.Balance(owner.Addr, vn.Denom)
		switch rng.Intn(8) {
		case 0:
			v, vc := valArg()
			a, ac := amtArg(bal)
			mname, argCls = "delegate", vc+"|"+ac
			data, _ = e.abiStaking.Pack("delegate", owner.Eth, v, a)
			native = &stakingtypes.MsgDelegate{DelegatorAddress: owner.Addr.String(), ValidatorAddress: v, Amount: sdk.Coin{Denom: vn.Denom, Amount: sdkmath.NewIntFromBigInt(a)}}
		case 1:
			v, vc := valArg()
			if rng.Intn(2) == 0 {
				v, vc = ownVal, "own-validator"
			}
			a, ac := amtArg(delAmt)
			mname, argCls = "undelegate", vc+"|"+ac
			data, _ = e.abiStaking.Pack("undelegate", owner.Eth, v, a)
			native = &stakingtypes.MsgUndelegate{DelegatorAddress: owner.Addr.String(), ValidatorAddress: v, Amount: sdk.Coin{Denom: vn.Denom, Amount: sdkmath.NewIntFromBigInt(a)}}
		case 2:
			src, sc := ownVal, "own-validator"
			if rng.Intn(4) == 0 {
				src, sc = valArg()
			}
			dst, dc := valArg()
			a, ac := amtArg(delAmt)
			mname, argCls = "redelegate", sc+">"+dc+"|"+ac
			data, _ = e.abiStaking.Pack("redelegate", owner.Eth, src, dst, a)
			native = &stakingtypes.MsgBeginRedelegate{DelegatorAddress: owner.Addr.String(), ValidatorSrcAddress: src, ValidatorDstAddress: dst, Amount: sdk.Coin{Denom: vn.Denom, Amount: sdkmath.NewIntFromBigInt(a)}}
		case 3:
			ubds := n.App.StakingKeeper.GetAllUnbondingDelegations(ctx, owner.Addr)
			v, h, entry := ownVal, int64(1), sdkmath.NewInt(stakeUnit)
			hc := "no-entry"
			if len(ubds) > 0 && len(ubds[0].Entries) > 0 {
				v, h, entry = ubds[0].ValidatorAddress, ubds[0].Entries[0].CreationHeight, ubds[0].Entries[0].Balance
				hc = "entry"
			}
			if rng.Intn(4) == 0 {
				h, hc = h+int64(rng.Intn(3))+1, "wrong-height"
			}
			a, ac := amtArg(entry)
			mname, argCls = "cancelUnbondingDelegation", hc+"|"+ac
			data, _ = e.abiStaking.Pack("cancelUnbondingDelegation", owner.Eth, v, a, big.NewInt(h))
			native = &stakingtypes.MsgCancelUnbondingDelegation{DelegatorAddress: owner.Addr.String(), ValidatorAddress: v, Amount: sdk.Coin{Denom: vn.Denom, Amount: sdkmath.NewIntFromBigInt(a)}, CreationHeight: h}
		case 4:
			v, vc := valArg()
			if rng.Intn(2) == 0 {
				v, vc = ownVal, "own-validator"
			}
			pc, mname, argCls = addrDist, "withdrawDelegatorRewards", vc
			data, _ = e.abiDist.Pack("withdrawDelegatorRewards", owner.Eth, v)
			native = &distrtypes.MsgWithdrawDelegatorReward{DelegatorAddress: owner.Addr.String(), ValidatorAddress: v}
		case 5:
			w := n.Accounts[rng.Intn(8)].Addr.String()
			wc := "account"
			switch rng.Intn(4) {
			case 0:
				w, wc = vn.ModuleAddr("distribution").String(), "module-account(blocked)"
			case 1:
				w, wc = "haqq1notanaddress", "malformed"
			}
			pc, mname, argCls = addrDist, "setWithdrawAddress", wc
			data, _ = e.abiDist.Pack("setWithdrawAddress", owner.Eth, w)
			native = &distrtypes.MsgSetWithdrawAddress{DelegatorAddress: owner.Addr.String(), WithdrawAddress: w}
		case 6:
			// validator commission: the owner is a validator operator
			vi := rng.Intn(3)
			owner = n.Vals[vi].Oper
			v := n.Vals[vi].ValAddr.String()
			vc := "own-validator"
			if rng.Intn(3) == 0 {
				v, vc = n.Vals[(vi+1)%3].ValAddr.String(), "someone-else's-validator"
			}
			pc, mname, argCls = addrDist, "withdrawValidatorCommission", vc
			data, _ = e.abiDist.Pack("withdrawValidatorCommission", v)
			native = &distrtypes.MsgWithdrawValidatorCommission{ValidatorAddress: v}
		default:
			// claimRewards: native equivalent is one withdraw per validator
			pc, mname, argCls = addrDist, "claimRewards", fmt.Sprintf("max%d", 10)
			data, _ = e.abiDist.Pack("claimRewards", owner.Eth, uint32(10))
			native = nil
		}
		if data == nil {
			continue
		}
		base := n.Snapshot(ctx)
		// branch A: native
		ctxA, _ := ctx.CacheContext()
		ctxA = ctxA.WithGasMeter(sdk.NewInfiniteGasMeter())
		var errA error
		natives := []sdk.Msg{native}
		if native == nil {
			natives = e.claimNative(owner.Eth)
		}
		for _, m := range natives {
			if sg := m.GetSigners(); len(sg) != 1 || !sg[0].Equals(owner.Addr) {
				errA = fmt.Errorf("the owner is not the signer of the native message")
				break
			}
			if vb, ok := m.(interface{ ValidateBasic() error }); ok {
				if errA = vb.ValidateBasic(); errA != nil {
					break
				}
			}
			h := n.App.MsgServiceRouter().Handler(m)
			errA = func() (err error) {
				defer func() { // baseapp turns a panicking message into a failed transaction
					if rec := recover(); rec != nil {
						err = fmt.Errorf("panic: %v", rec)
					}
				}()
				_, err = h(ctxA, m)
				return err
			}()
			if errA != nil {
				break
			}
		}
		dA := c16Filter(vn.Diff(base, n.Snapshot(ctxA)))
		if errA != nil {
			dA = nil // a failed native message has no effect (the transaction is rolled back)
		}
		// branch B: precompile call by the owner
		ctxB, _ := ctx.CacheContext()
		ctxB = ctxB.WithGasMeter(sdk.NewInfiniteGasMeter())
		var okB bool
		var vmErr string
		var errB error
		func() {
			defer func() {
				if rec := recover(); rec != nil {
					okB, errB = false, fmt.Errorf("panic: %v", rec)
				}
			}()
			okB, _, vmErr, errB = evmCall(e, ctxB, owner.Eth, pc, data, true)
		}()
		dB := c16Filter(vn.Diff(base, n.Snapshot(ctxB)))
		if errB != nil || !okB {
			okB = false
		}
		sig := fmt.Sprintf("%s|%s", mname, argCls)
		detail := map[string]any{"native_err": fmt.Sprint(errA), "precompile_vmerr": vmErr, "precompile_err": fmt.Sprint(errB), "native_diff": trunc(dA, 8), "precompile_diff": trunc(dB, 8)}
		if (errA == nil) != okB {
			r.Violation(id, sig+"|outcome-differs", fmt.Sprintf("native message error=%v, precompile call ok=%v (vm error %q)", errA, okB, vmErr), detail)
			continue
		}
		if !okB {
			// a failing call made directly by the owner is a failing transaction: its writes are
			// dropped with the transaction (partial writes caught by a calling contract are C05's subject)
			if len(dB) > 0 {
				r.Count("failed_direct_calls_with_partial_writes(dropped with the tx)", 1)
			}
			dB = nil
		}
		if fd := firstDiff(dA, dB); fd != "" {
			r.Violation(id, sig+"|effect-differs:"+storeOf(fd), fd, detail)
			continue
		}
		r.Count("tx_pairs_equal", 1)
		out := "both-fail"
		if okB {
			out = "both-succeed"
			r.Count("tx_pairs_both_succeed", 1)
		}
		r.Nontriv(fmt.Sprintf("tx|%s|%s|%s", mname, argCls, out))
		r.Sample("tx-"+mname, map[string]any{"args": argCls, "outcome": out, "effect_keys": len(dB)})
	}
	n.EndBlock()
	n.Commit()
}

// c16Query compares a read-only precompile method with the native query on the same context.
func c16Query(r *report.R, e *pcEnv, id string, rng *rand.Rand, owner vn.Account, stateCls string) {
	n := e.n
	ctx := n.Ctx()
	cctx, _ := ctx.CacheContext()
	cctx = cctx.WithGasMeter(sdk.NewInfiniteGasMeter())
	q := stakingkeeper.Querier{Keeper: n.App.StakingKeeper.Keeper}
	val := n.Vals[rng.Intn(3)].ValAddr.String()
	vcls := "valid"
	if rng.Intn(4) == 0 {
		val, vcls = sdk.ValAddress(vn.DetAccount(3, "nov", 2).Addr).String(), "unknown-validator"
	}
	call := func(pc common.Address, a abi.ABI, m string, args ...any) ([]any, bool) {
		data, err := a.Pack(m, args...)
		if err != nil {
			return nil, false
		}
		ok, ret, _, err := evmCall(e, cctx, owner.Eth, pc, data, false)
		if err != nil || !ok {
			return nil, false
		}
		out, err := a.Unpack(m, ret)
		if err != nil {
			return nil, false
		}
		return out, true
	}
	viol := func(m, what string) {
		r.Violation(id, "query|"+m+"|"+vcls+"|≠native", what, nil)
	}
	switch rng.Intn(7) {
	case 0: // delegation
		out, ok := call(addrStaking, e.abiStaking, "delegation", owner.Eth, val)
		res, err := q.Delegation(sdk.WrapSDKContext(ctx), &stakingtypes.QueryDelegationRequest{DelegatorAddr: owner.Addr.String(), ValidatorAddr: val})
		wantShares, wantBal := big.NewInt(0), big.NewInt(0)
		if err == nil {
			wantShares, wantBal = res.DelegationResponse.Delegation.Shares.BigInt(), res.DelegationResponse.Balance.Amount.BigInt()
		}
		if !ok {
			if err == nil {
				viol("delegation", "precompile query failed, native succeeded")
			}
			return
		}
		bal := out[1].(struct {
			Denom  string   `json:"denom"`
			Amount *big.Int `json:"amount"`
		})
		if out[0].(*big.Int).Cmp(wantShares) != 0 || bal.Amount.Cmp(wantBal) != 0 {
			viol("delegation", fmt.Sprintf("precompile shares=%s balance=%s, native shares=%s balance=%s", out[0], bal.Amount, wantShares, wantBal))
			return
		}
		r.Count("query_pairs_equal", 1)
		r.Nontriv("query|delegation|" + vcls + fmt.Sprintf("|found=%v", err == nil))
	case 1: // unbonding delegation
		out, ok := call(addrStaking, e.abiStaking, "unbondingDelegation", owner.Eth, val)
		res, err := q.UnbondingDelegation(sdk.WrapSDKContext(ctx), &stakingtypes.QueryUnbondingDelegationRequest{DelegatorAddr: owner.Addr.String(), ValidatorAddr: val})
		if !ok {
			if err == nil {
				viol("unbondingDelegation", "precompile query failed, native succeeded")
			}
			return
		}
		s := pv(out[0])
		nEntries := strings.Count(s, "CreationHeight:")
		want := 0
		if err == nil {
			want = len(res.Unbond.Entries)
			for _, en := range res.Unbond.Entries {
				if !strings.Contains(s, en.Balance.String()) || !strings.Contains(s, fmt.Sprintf("CreationHeight:%d", en.CreationHeight)) {
					viol("unbondingDelegation", fmt.Sprintf("entry %+v not in precompile output %s", en, s))
					return
				}
			}
		}
		if nEntries != want {
			viol("unbondingDelegation", fmt.Sprintf("precompile reports %d entries, native %d", nEntries, want))
			return
		}
		r.Count("query_pairs_equal", 1)
		r.Nontriv("query|unbondingDelegation|" + vcls + fmt.Sprintf("|entries=%d", want))
	case 2: // validator
		out, ok := call(addrStaking, e.abiStaking, "validator", val)
		res, err := q.Validator(sdk.WrapSDKContext(ctx), &stakingtypes.QueryValidatorRequest{ValidatorAddr: val})
		if !ok {
			if err == nil {
				viol("validator", "precompile query failed, native succeeded")
			}
			return
		}
		s := pv(out[0])
		if err == nil {
			v := res.Validator
			for _, want := range []string{"OperatorAddress:" + v.OperatorAddress, "Tokens:" + v.Tokens.String(), fmt.Sprintf("Jailed:%v", v.Jailed), fmt.Sprintf("Status:%d", v.Status), "DelegatorShares:" + v.DelegatorShares.BigInt().String()} {
				if !strings.Contains(s, want) {
					viol("validator", fmt.Sprintf("precompile output %s lacks %s", s, want))
					return
				}
			}
		} else if !strings.Contains(s, "OperatorAddress: ") && !strings.Contains(s, "Tokens:0") && !strings.Contains(s, "Tokens:<nil>") {
			viol("validator", "unknown validator reported as "+s)
			return
		}
		r.Count("query_pairs_equal", 1)
		r.Nontriv("query|validator|" + vcls)
	case 3: // validators with pagination
		status := []string{"BOND_STATUS_BONDED", "", "BOND_STATUS_UNBONDING"}[rng.Intn(3)]
		limit := uint64(1 + rng.Intn(4))
		type page struct {
			Key        []byte `json:"key"`
			Offset     uint64 `json:"offset"`
			Limit      uint64 `json:"limit"`
			CountTotal bool   `json:"countTotal"`
			Reverse    bool   `json:"reverse"`
		}
		out, ok := call(addrStaking, e.abiStaking, "validators", status, page{Limit: limit, CountTotal: true})
		res, err := q.Validators(sdk.WrapSDKContext(ctx), &stakingtypes.QueryValidatorsRequest{Status: status, Pagination: &query.PageRequest{Limit: limit, CountTotal: true}})
		if !ok || err != nil {
			if ok != (err == nil) {
				viol("validators", fmt.Sprintf("precompile ok=%v native err=%v", ok, err))
			}
			return
		}
		s := pv(out[0])
		if strings.Count(s, "OperatorAddress:") != len(res.Validators) {
			viol("validators", fmt.Sprintf("precompile lists %d validators, native %d (status %q limit %d)", strings.Count(s, "OperatorAddress:"), len(res.Validators), status, limit))
			return
		}
		for _, v := range res.Validators {
			if !strings.Contains(s, v.OperatorAddress) {
				viol("validators", "missing "+v.OperatorAddress)
				return
			}
		}
		pr := pv(out[1])
		if !strings.Contains(pr, fmt.Sprintf("Total:%d", res.Pagination.Total)) {
			viol("validators", fmt.Sprintf("page response %s, native total %d", pr, res.Pagination.Total))
			return
		}
		r.Count("query_pairs_equal", 1)
		r.Nontriv(fmt.Sprintf("query|validators|status=%q|limit%d", status, limit))
	case 4: // redelegation
		a3 := n.Accounts[3]
		reds := n.App.StakingKeeper.GetRedelegations(ctx, a3.Addr, 5)
		src, dst := n.Vals[0].ValAddr.String(), n.Vals[1].ValAddr.String()
		if len(reds) > 0 && rng.Intn(3) > 0 {
			src, dst = reds[0].ValidatorSrcAddress, reds[0].ValidatorDstAddress
		}
		out, ok := call(addrStaking, e.abiStaking, "redelegation", a3.Eth, src, dst)
		red, found := n.App.StakingKeeper.GetRedelegation(ctx, a3.Addr, mustVal(src), mustVal(dst))
		if !ok {
			if found {
				viol("redelegation", "precompile query failed, native finds it")
			}
			return
		}
		s := pv(out[0])
		want := 0
		if found {
			want = len(red.Entries)
			for _, en := range red.Entries {
				if !strings.Contains(s, en.InitialBalance.String()) {
					viol("redelegation", fmt.Sprintf("entry %+v not in %s", en, s))
					return
				}
			}
		}
		if strings.Count(s, "CreationHeight:") != want {
			viol("redelegation", fmt.Sprintf("precompile %d entries, native %d", strings.Count(s, "CreationHeight:"), want))
			return
		}
		r.Count("query_pairs_equal", 1)
		r.Nontriv(fmt.Sprintf("query|redelegation|found=%v", found))
	case 5: // redelegations (plural): by delegator / source / destination, with the current balance of every entry
		a3 := n.Accounts[3]
		type page struct {
			Key        []byte `json:"key"`
			Offset     uint64 `json:"offset"`
			Limit      uint64 `json:"limit"`
			CountTotal bool   `json:"countTotal"`
			Reverse    bool   `json:"reverse"`
		}
		del, src, dst := a3.Eth, "", ""
		reds := n.App.StakingKeeper.GetRedelegations(ctx, a3.Addr, 5)
		argCls := "by-delegator"
		if len(reds) > 0 {
			switch rng.Intn(3) {
			case 0:
				src, dst, argCls = reds[0].ValidatorSrcAddress, reds[0].ValidatorDstAddress, "by-delegator+src+dst"
			case 1:
				del, src, argCls = common.Address{}, reds[0].ValidatorSrcAddress, "by-source-validator"
			}
		}
		out, ok := call(addrStaking, e.abiStaking, "redelegations", del, src, dst, page{Limit: 10, CountTotal: true})
		delStr := ""
		if del != (common.Address{}) {
			delStr = sdk.AccAddress(del.Bytes()).String()
		}
		res, err := q.Redelegations(sdk.WrapSDKContext(ctx), &stakingtypes.QueryRedelegationsRequest{DelegatorAddr: delStr, SrcValidatorAddr: src, DstValidatorAddr: dst, Pagination: &query.PageRequest{Limit: 10, CountTotal: true}})
		if !ok || err != nil {
			if ok != (err == nil) {
				viol("redelegations", fmt.Sprintf("precompile ok=%v native err=%v (%s)", ok, err, argCls))
			}
			return
		}
		s := pv(out[0])
		entries, slashed := 0, false
		for _, rr := range res.RedelegationResponses {
			for _, en := range rr.Entries {
				entries++
				if !en.Balance.Equal(en.RedelegationEntry.InitialBalance) {
					slashed = true
				}
				if !strings.Contains(s, "InitialBalance:"+en.RedelegationEntry.InitialBalance.String()) || !strings.Contains(s, "Balance:"+en.Balance.String()) {
					viol("redelegations", fmt.Sprintf("native entry with initial balance %s and balance %s (destination %s) not reported as such: %s", en.RedelegationEntry.InitialBalance, en.Balance, rr.Redelegation.ValidatorDstAddress, s))
					return
				}
			}
		}
		if strings.Count(s, "CreationHeight:") != entries {
			viol("redelegations", fmt.Sprintf("precompile %d entries, native %d (%s)", strings.Count(s, "CreationHeight:"), entries, argCls))
			return
		}
		r.Count("query_pairs_equal", 1)
		r.Nontriv(fmt.Sprintf("query|redelegations|%s|entries%d|dst-slashed=%v", argCls, entries, slashed))
	default: // bank precompile: balances / supplyOf for denoms that have an ERC20 address
		who := n.Accounts[rng.Intn(3)]
		out, ok := call(addrBank, e.abiBank, "balances", who.Eth)
		if !ok {
			viol("bank.balances", "query failed")
			return
		}
		s := pv(out[0])
		cnt := 0
		for _, c := range n.App.BankKeeper.GetAllBalances(ctx, who.Addr) {
			addr, err := n.App.Erc20Keeper.GetCoinAddress(ctx, c.Denom)
			if err != nil {
				continue
			}
			cnt++
			if !strings.Contains(s, addr.Hex()) || !strings.Contains(s, "Amount:"+c.Amount.String()) {
				viol("bank.balances", fmt.Sprintf("%s of %s (erc20 %s) not reported: %s", c, who.Addr, addr.Hex(), s))
				return
			}
			so, ok := call(addrBank, e.abiBank, "supplyOf", addr)
			if !ok || so[0].(*big.Int).Cmp(n.App.BankKeeper.GetSupply(ctx, c.Denom).Amount.BigInt()) != 0 {
				viol("bank.supplyOf", fmt.Sprintf("supplyOf(%s)=%v, bank supply %s", addr.Hex(), so, n.App.BankKeeper.GetSupply(ctx, c.Denom)))
				return
			}
		}
		if strings.Count(s, "ContractAddress:") != cnt {
			viol("bank.balances", fmt.Sprintf("precompile lists %d balances, %d denoms of the account have an ERC20 address: %s", strings.Count(s, "ContractAddress:"), cnt, s))
			return
		}
		r.Count("query_pairs_equal", 1)
		r.Nontriv(fmt.Sprintf("query|bank|paired-denoms=%d", cnt))
	}
}

func pv(x any) string { return strings.ReplaceAll(fmt.Sprintf("%+v", x), ":+", ":") }

func mustVal(s string) sdk.ValAddress {
	v, err := sdk.ValAddressFromBech32(s)
	if err != nil {
		return nil
	}
	return v
}
