//go:build verif

package checks

import (
	"fmt"
	"math/big"
	"math/rand"
	"strings"
	"testing"

	sdkmath "cosmossdk.io/math"
	codectypes "github.com/cosmos/cosmos-sdk/codec/types"
	sdk "github.com/cosmos/cosmos-sdk/types"
	sdkvesting "github.com/cosmos/cosmos-sdk/x/auth/vesting/types"
	"github.com/cosmos/cosmos-sdk/x/authz"
	banktypes "github.com/cosmos/cosmos-sdk/x/bank/types"

	haqqtypes "github.com/haqq-network/haqq/types"
	evmtypes "github.com/haqq-network/haqq/x/evm/types"

	"verif/harness/report"
	"verif/harness/vn"
)

// A message tree: leaves are plain messages, inner nodes are authz exec wrappers.
type mnode struct {
	kind string // send | ethtx | createvesting | grant-ethtx | grant-createvesting | grant-send | exec
	kids []*mnode
}

func (m *mnode) shape() string {
	if m.kind != "exec" {
		return m.kind
	}
	var ks []string
	for _, k := range m.kids {
		ks = append(ks, k.shape())
	}
	return "exec[" + strings.Join(ks, ",") + "]"
}

// barredIn is the independent predicate: does the tree (as the i-th top-level message of
// a Cosmos-route transaction) contain a barred element, and which.
func barredIn(m *mnode, underExec bool, depth int) (bool, string, int) {
	switch m.kind {
	case "ethtx":
		return true, "MsgEthereumTx", depth // barred anywhere off the Ethereum route
	case "createvesting":
		if underExec {
			return true, "exec(MsgCreateVestingAccount)", depth
		}
	case "grant-ethtx":
		return true, "grant(MsgEthereumTx)", depth
	case "grant-createvesting":
		return true, "grant(MsgCreateVestingAccount)", depth
	case "exec":
		for _, k := range m.kids {
			if b, what, d := barredIn(k, true, depth+1); b {
				return true, what, d
			}
		}
	}
	return false, "", 0
}

func treeDepth(m *mnode) int {
	d := 0
	for _, k := range m.kids {
		if kd := treeDepth(k); kd > d {
			d = kd
		}
	}
	return d + 1
}

func genTree(rng *rand.Rand, depth, width int, barred string) *mnode {
	// a chain of exec wrappers of the requested depth with benign siblings; the barred leaf
	// (if any) is put at a random position of the deepest level or of an intermediate one
	benign := func() *mnode {
		if rng.Intn(4) == 0 {
			return &mnode{kind: "grant-send"}
		}
		return &mnode{kind: "send"}
	}
	var build func(level int, carry bool) *mnode
	build = func(level int, carry bool) *mnode {
		if level >= depth {
			if carry && barred != "" {
				return &mnode{kind: barred}
			}
			return benign()
		}
		n := &mnode{kind: "exec"}
		w := 1 + rng.Intn(width)
		pos := rng.Intn(w)
		for i := 0; i < w; i++ {
			if i == pos {
				n.kids = append(n.kids, build(level+1, carry))
			} else if rng.Intn(3) == 0 && level+1 < depth {
				n.kids = append(n.kids, build(level+1+rng.Intn(depth-level-1), false))
			} else {
				n.kids = append(n.kids, benign())
			}
		}
		return n
	}
	return build(1, true)
}

type c06env struct {
	n   *vn.Node
	a   vn.Account // the one signer / grantee / eth sender
	b   vn.Account
	rng *rand.Rand
	// ethNonce to use for embedded eth txs (never consumed when the rule holds)
}

func (e *c06env) msgOf(m *mnode) sdk.Msg {
	n := e.n
	switch m.kind {
	case "send":
		return banktypes.NewMsgSend(e.a.Addr, e.b.Addr, vn.Coins(int64(e.rng.Intn(1000)+1)))
	case "ethtx":
		to := e.b.Eth
		tx := n.SignEth(e.a, vn.EthArgs{Type: e.rng.Intn(2) * 1, Nonce: n.EthNonce(e.a.Eth), To: &to, Value: big.NewInt(12345), Gas: 21000, GasPrice: big.NewInt(1_000_000_000)})
		msg := &evmtypes.MsgEthereumTx{}
		vn.Must(msg.FromEthereumTx(tx))
		return msg
	case "createvesting":
		return sdkvesting.NewMsgCreateVestingAccount(e.a.Addr, vn.DetAccount(9, "c06", e.rng.Intn(1<<30)).Addr, vn.Coins(1000), n.Time.Unix()+1000, false)
	case "grant-ethtx", "grant-createvesting", "grant-send":
		url := sdk.MsgTypeURL(&banktypes.MsgSend{})
		if m.kind == "grant-ethtx" {
			url = sdk.MsgTypeURL(&evmtypes.MsgEthereumTx{})
		} else if m.kind == "grant-createvesting" {
			url = sdk.MsgTypeURL(&sdkvesting.MsgCreateVestingAccount{})
		}
		exp := n.Time.Add(1000 * 3600 * 1e9)
		g, err := authz.NewMsgGrant(e.a.Addr, e.b.Addr, authz.NewGenericAuthorization(url), &exp)
		vn.Must(err)
		return g
	case "exec":
		var msgs []sdk.Msg
		for _, k := range m.kids {
			msgs = append(msgs, e.msgOf(k))
		}
		x := authz.NewMsgExec(e.a.Addr, msgs)
		return &x
	}
	panic(m.kind)
}

func replaceBarred(m *mnode) *mnode {
	c := &mnode{kind: m.kind}
	switch m.kind {
	case "ethtx", "createvesting":
		c.kind = "send"
	case "grant-ethtx", "grant-createvesting":
		c.kind = "grant-send"
	}
	for _, k := range m.kids {
		c.kids = append(c.kids, replaceBarred(k))
	}
	return c
}

func TestC06(t *testing.T) {
	r := report.Start("C06")
	defer r.Finish()
	n := vn.New(vn.Config{Seed: uint64(r.Seed), NumVals: 1, NumAccounts: 4})
	env := &c06env{n: n, a: n.Accounts[0], b: n.Accounts[1]}
	n.BeginBlock(vn.BlockOpts{})
	ncases := r.Cases(3200, 96000)
	inBlock := 0
	for i := 0; i < ncases; i++ {
		id := fmt.Sprintf("tree/%d", i)
		if !r.Want(id, i) {
			continue
		}
		env.rng = r.Rand(id)
		c06Case(r, env, id)
		inBlock++
		if inBlock%25 == 0 {
			n.EndBlock()
			n.Commit()
			n.BeginBlock(vn.BlockOpts{})
		}
	}
	n.EndBlock()
	n.Commit()
}

var c06Routes = []string{"cosmos", "cosmos+dynamic-fee", "web3tx-eip712", "ethereum"}

// buildTx builds a fully valid signed transaction on the given route carrying msgs and
// (optionally) extra extension options. ok=false when the route cannot express the tx.
func (e *c06env) buildTx(route string, msgs []sdk.Msg, extra []*codectypes.Any) (bz []byte, ok bool) {
	n := e.n
	defer func() {
		if rec := recover(); rec != nil {
			ok = false
		}
	}()
	gas := uint64(3_000_000)
	fee := sdk.NewCoins(sdk.NewCoin(vn.Denom, sdkmath.NewInt(int64(gas))))
	switch route {
	case "cosmos":
		return n.CosmosTx(vn.CosmosArgs{Msgs: msgs, Gas: gas, Fee: fee, ExtOpts: extra}, e.a), true
	case "cosmos+dynamic-fee":
		opt, err := codectypes.NewAnyWithValue(&haqqtypes.ExtensionOptionDynamicFeeTx{MaxPriorityPrice: sdkmath.NewInt(1)})
		vn.Must(err)
		return n.CosmosTx(vn.CosmosArgs{Msgs: msgs, Gas: gas, Fee: fee, ExtOpts: append([]*codectypes.Any{opt}, extra...)}, e.a), true
	case "web3tx-eip712":
		bz, err := n.EIP712Tx(e.a, msgs, gas, fee, true, true, extra)
		if err != nil {
			return nil, false
		}
		return bz, true
	case "ethereum", "ethereum-messages-without-own-option":
		// Ethereum route: extension option first, the eth messages' fee and gas in the envelope
		b := n.Enc.TxConfig.NewTxBuilder()
		vn.Must(b.SetMsgs(msgs...))
		opt, err := codectypes.NewAnyWithValue(&evmtypes.ExtensionOptionsEthereumTx{})
		vn.Must(err)
		opts := append([]*codectypes.Any{opt}, extra...)
		if route == "ethereum-messages-without-own-option" {
			opts = extra
		}
		b.(interface {
			SetExtensionOptions(...*codectypes.Any)
		}).SetExtensionOptions(opts...)
		tf := sdk.Coins{}
		tg := uint64(0)
		for _, m := range msgs {
			if em, ok := m.(*evmtypes.MsgEthereumTx); ok {
				tf = tf.Add(sdk.NewCoin(vn.Denom, sdkmath.NewIntFromBigInt(em.GetFee())))
				tg += em.GetGas()
			}
		}
		b.SetFeeAmount(tf)
		b.SetGasLimit(tg)
		out, err := n.Enc.TxConfig.TxEncoder()(b.GetTx())
		vn.Must(err)
		return out, true
	}
	return nil, false
}

// buildTxObject builds the Ethereum-route envelope as a transaction object (not bytes).
func (e *c06env) buildTxObject(route string, msgs []sdk.Msg, extra []*codectypes.Any) (tx sdk.Tx, ok bool) {
	n := e.n
	defer func() {
		if rec := recover(); rec != nil {
			ok = false
		}
	}()
	b := n.Enc.TxConfig.NewTxBuilder()
	// as after decoding: the sender is not part of the wire format
	var clean []sdk.Msg
	for _, m := range msgs {
		if em, ok := m.(*evmtypes.MsgEthereumTx); ok {
			c := *em
			c.From = ""
			clean = append(clean, &c)
		} else {
			clean = append(clean, m)
		}
	}
	vn.Must(b.SetMsgs(clean...))
	opt, err := codectypes.NewAnyWithValue(&evmtypes.ExtensionOptionsEthereumTx{})
	vn.Must(err)
	opts := append([]*codectypes.Any{opt}, extra...)
	if route == "ethereum-messages-without-own-option" {
		opts = extra
	}
	b.(interface {
		SetExtensionOptions(...*codectypes.Any)
	}).SetExtensionOptions(opts...)
	tf := sdk.Coins{}
	tg := uint64(0)
	for _, m := range msgs {
		if em, ok := m.(*evmtypes.MsgEthereumTx); ok {
			tf = tf.Add(sdk.NewCoin(vn.Denom, sdkmath.NewIntFromBigInt(em.GetFee())))
			tg += em.GetGas()
		}
	}
	b.SetFeeAmount(tf)
	b.SetGasLimit(tg)
	return b.GetTx(), true
}

func c06Case(r *report.R, e *c06env, id string) {
	rng := e.rng
	n := e.n
	r.Eval(1)
	family := rng.Intn(10)
	switch {
	case family < 6:
		c06Tree(r, e, id)
	case family < 8:
		c06EthRoute(r, e, id)
	default:
		c06ExtOpts(r, e, id)
	}
	_ = n
}

// deliverExpectRejected delivers a tx that must be rejected before execution: non-zero code
// and a bit-identical state.
func (e *c06env) deliverWithDigest(tx []byte) (code uint32, log string, unchanged bool, seqAdvanced bool) {
	n := e.n
	before := n.Snapshot(n.Ctx()).Digest()
	seq := n.Seq(e.a.Addr)
	res := n.Deliver(tx)
	after := n.Snapshot(n.Ctx()).Digest()
	return res.Code, res.Log, before == after, n.Seq(e.a.Addr) > seq
}

func c06Tree(r *report.R, e *c06env, id string) {
	rng := e.rng
	route := c06Routes[rng.Intn(3)]
	depth := 1 + rng.Intn(12)
	if rng.Intn(3) == 0 {
		depth = 1 + rng.Intn(4)
	}
	width := 1 + rng.Intn(4)
	barredKinds := []string{"ethtx", "createvesting", "grant-ethtx", "grant-createvesting"}
	barred := barredKinds[rng.Intn(len(barredKinds))]
	tree := genTree(rng, depth, width, barred)
	// the tree is one of several top-level messages
	nTop := 1 + rng.Intn(3)
	pos := rng.Intn(nTop)
	var tops []*mnode
	for i := 0; i < nTop; i++ {
		if i == pos {
			tops = append(tops, tree)
		} else if rng.Intn(3) == 0 {
			tops = append(tops, genTree(rng, 1+rng.Intn(3), 2, ""))
		} else {
			tops = append(tops, &mnode{kind: "send"})
		}
	}
	isBarred, what, bdepth := false, "", 0
	for _, tnode := range tops {
		if b, w, d := barredIn(tnode, false, 1); b {
			isBarred, what, bdepth = true, w, d
			break
		}
	}
	var msgs, ctlMsgs []sdk.Msg
	shape := []string{}
	for _, tnode := range tops {
		msgs = append(msgs, e.msgOf(tnode))
		ctlMsgs = append(ctlMsgs, e.msgOf(replaceBarred(tnode)))
		shape = append(shape, tnode.shape())
	}
	posCls := "first"
	if pos > 0 {
		posCls = "after-plain-msgs"
	}
	desc := fmt.Sprintf("route=%s msgs=%s", route, strings.Join(shape, " ; "))
	if !isBarred {
		// a createvesting leaf at top level (depth 1) is not barred by the statement: plain control
		tx, ok := e.buildTx(route, msgs, nil)
		if !ok {
			return
		}
		_, _, _, adv := e.deliverWithDigest(tx)
		if adv {
			r.Count("controls_passed_ante", 1)
		}
		return
	}
	tx, ok := e.buildTx(route, msgs, nil)
	if !ok {
		r.Count("unbuildable/"+route, 1)
		return
	}
	code, log, unchanged, adv := e.deliverWithDigest(tx)
	sig := fmt.Sprintf("%s|%s|depth%d|%s", route, what, bdepthBucket(bdepth), posCls)
	if code == 0 || !unchanged || adv {
		r.Violation(id, sig+"|passed-the-ante-handler", fmt.Sprintf("barred element %s at nesting depth %d: code=%d state-unchanged=%v sequence-advanced=%v; %s; log=%.200s", what, bdepth, code, unchanged, adv, desc, log), nil)
		return
	}
	r.Count("barred_rejected", 1)
	// twin control: same tree with the barred leaf replaced by a harmless one must pass the ante
	ctl, ok := e.buildTx(route, ctlMsgs, nil)
	if !ok {
		return
	}
	_, clog, _, cadv := e.deliverWithDigest(ctl)
	if cadv {
		r.Count("controls_passed_ante", 1)
		r.Nontriv(fmt.Sprintf("tree|%s|%s|depth%d|%s", route, what, bdepthBucket(bdepth), posCls))
		r.Sample(route+"|"+what, desc)
	} else {
		r.Count("control_also_rejected(over-rejection or route limit)", 1)
		r.Note("control rejected: %.120s", clog)
	}
}

func bdepthBucket(d int) int {
	if d <= 3 {
		return d
	}
	if d <= 6 {
		return 6
	}
	return 12
}

// c06EthRoute: the Ethereum route carries anything but Ethereum messages.
func c06EthRoute(r *report.R, e *c06env, id string) {
	rng := e.rng
	kinds := []string{"send", "exec-send", "grant-send", "exec-ethtx", "createvesting"}
	k := kinds[rng.Intn(len(kinds))]
	var foreign sdk.Msg
	switch k {
	case "send":
		foreign = e.msgOf(&mnode{kind: "send"})
	case "exec-send":
		foreign = e.msgOf(&mnode{kind: "exec", kids: []*mnode{{kind: "send"}}})
	case "grant-send":
		foreign = e.msgOf(&mnode{kind: "grant-send"})
	case "exec-ethtx":
		foreign = e.msgOf(&mnode{kind: "exec", kids: []*mnode{{kind: "ethtx"}}})
	default:
		foreign = e.msgOf(&mnode{kind: "createvesting"})
	}
	eth := e.msgOf(&mnode{kind: "ethtx"})
	var msgs []sdk.Msg
	layout := ""
	switch rng.Intn(3) {
	case 0:
		msgs, layout = []sdk.Msg{foreign}, "alone"
	case 1:
		msgs, layout = []sdk.Msg{eth, foreign}, "after-eth"
	default:
		msgs, layout = []sdk.Msg{foreign, eth}, "before-eth"
	}
	tx, ok := e.buildTx("ethereum", msgs, nil)
	if !ok {
		return
	}
	code, log, unchanged, adv := e.deliverWithDigest(tx)
	sig := fmt.Sprintf("ethereum-route|foreign-msg:%s|%s", k, layout)
	if code == 0 || !unchanged || adv {
		r.Violation(id, sig+"|passed-the-ante-handler", fmt.Sprintf("code=%d state-unchanged=%v log=%.200s", code, unchanged, log), nil)
		return
	}
	// control: the Ethereum message alone on its route passes
	ctl, _ := e.buildTx("ethereum", []sdk.Msg{e.msgOf(&mnode{kind: "ethtx"})}, nil)
	nonce := e.n.EthNonce(e.a.Eth)
	res := e.n.Deliver(ctl)
	if res.Code == 0 && e.n.EthNonce(e.a.Eth) == nonce+1 {
		r.Count("controls_passed_ante", 1)
		r.Nontriv(sig)
	} else {
		r.Note("eth control failed: %.120s", res.Log)
	}
}

// c06ExtOpts: extension-option lists. Acceptable only when every option is known to the
// route chosen by the first one (dynamic-fee route: all dynamic-fee options; Ethereum and
// web3 routes: exactly one option).
func c06ExtOpts(r *report.R, e *c06env, id string) {
	rng := e.rng
	mk := func(name string) *codectypes.Any {
		switch name {
		case "dyn":
			a, _ := codectypes.NewAnyWithValue(&haqqtypes.ExtensionOptionDynamicFeeTx{MaxPriorityPrice: sdkmath.NewInt(int64(rng.Intn(5)))})
			return a
		case "eth":
			a, _ := codectypes.NewAnyWithValue(&evmtypes.ExtensionOptionsEthereumTx{})
			return a
		case "web3":
			a, _ := codectypes.NewAnyWithValue(&haqqtypes.ExtensionOptionsWeb3Tx{FeePayer: e.a.Addr.String(), TypedDataChainID: e.n.EIP155().Uint64(), FeePayerSig: make([]byte, 65)})
			return a
		case "unregistered":
			return &codectypes.Any{TypeUrl: "/verif.unknown.v1.Option", Value: []byte{1, 2, 3}}
		default: // a registered message type that is not an extension option
			a, _ := codectypes.NewAnyWithValue(banktypes.NewMsgSend(e.a.Addr, e.b.Addr, vn.Coins(1)))
			return a
		}
	}
	names := []string{"dyn", "eth", "web3", "unregistered", "msg-as-option"}
	base := append(append([]string{}, c06Routes...), "ethereum-messages-without-own-option")[rng.Intn(5)]
	k := rng.Intn(3) // extra options appended after the route's own option(s)
	if (base == "cosmos" || base == "ethereum-messages-without-own-option") && k == 0 {
		k = 1
	}
	var extra []*codectypes.Any
	var list []string
	for i := 0; i < k; i++ {
		nm := names[rng.Intn(len(names))]
		extra = append(extra, mk(nm))
		list = append(list, nm)
	}
	// which lists are acceptable
	acceptable := false
	switch base {
	case "cosmos": // no own option: route is chosen by the first extra option
		acceptable = true
		for _, nm := range list {
			if nm != "dyn" {
				acceptable = false
			}
		}
	case "cosmos+dynamic-fee":
		acceptable = true
		for _, nm := range list {
			if nm != "dyn" {
				acceptable = false
			}
		}
	case "ethereum-messages-without-own-option":
		// signed Ethereum messages in an envelope whose options are only the listed ones: whatever the
		// transactions before it were, this is the Ethereum route only if the list is exactly [eth]
		acceptable = len(list) == 1 && list[0] == "eth"
	default:
		acceptable = len(list) == 0
	}
	var msgs []sdk.Msg
	if base == "ethereum" || base == "ethereum-messages-without-own-option" {
		msgs = []sdk.Msg{e.msgOf(&mnode{kind: "ethtx"})}
	} else {
		msgs = []sdk.Msg{e.msgOf(&mnode{kind: "send"})}
	}
	tx, ok := e.buildTx(base, msgs, extra)
	if !ok {
		r.Count("unbuildable/extopts/"+base, 1)
		return
	}
	cls := fmt.Sprintf("extopts|%s|+[%s]", base, strings.Join(list, ","))
	// options the decoder cannot even unpack never reach the ante handler through DeliverTx; the
	// statement is about the ante handler's answer for a constructed transaction, so those are also
	// handed to the installed handler directly (same instance, hence with whatever it remembers of
	// the transactions before)
	if !acceptable && (base == "ethereum" || base == "ethereum-messages-without-own-option") {
		if ah := e.n.AnteHandler(); ah != nil {
			if obj, okObj := e.buildTxObject(base, msgs, extra); okObj {
				// the handler may remember the route of the transaction before: make that the Ethereum
				// route half of the time (a valid transaction of the same messages, on a branch of its own)
				if rng.Intn(2) == 0 {
					if prime, okP := e.buildTxObject("ethereum", msgs, nil); okP {
						pctx, _ := e.n.Ctx().WithBlockGasMeter(sdk.NewInfiniteGasMeter()).CacheContext()
						func() {
							defer func() { _ = recover() }()
							if _, perr := ah(pctx.WithIsCheckTx(false), prime, false); perr == nil {
								r.Count("ante_handler_primed_with_a_valid_ethereum_tx", 1)
							}
						}()
					}
				}
				cctx, _ := e.n.Ctx().WithBlockGasMeter(sdk.NewInfiniteGasMeter()).CacheContext()
				var err error
				func() {
					defer func() {
						if rec := recover(); rec != nil {
							err = fmt.Errorf("panic: %v", rec)
						}
					}()
					_, err = ah(cctx.WithIsCheckTx(false), obj, false)
				}()
				if err == nil {
					r.Violation(id, cls+"|accepted-by-the-ante-handler(constructed-tx)", "the installed ante handler let a constructed transaction with an option unknown to its route through", nil)
					return
				}
				r.Count("extopt_rejected_by_ante_handler_directly", 1)
			}
		}
	}
	code, log, unchanged, _ := e.deliverWithDigest(tx)
	if !acceptable {
		if code == 0 || !unchanged {
			r.Violation(id, cls+"|accepted", fmt.Sprintf("transaction with an option unknown to its route was accepted: code=%d state-unchanged=%v log=%.160s", code, unchanged, log), nil)
			return
		}
		r.Count("extopt_rejected", 1)
		r.Nontriv(cls + "|rejected")
	} else if code == 0 {
		r.Count("controls_passed_ante", 1)
		r.Nontriv(cls + "|accepted-control")
	} else {
		r.Note("acceptable option list rejected (%s): %.120s", cls, log)
	}
}
