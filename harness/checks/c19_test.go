//go:build verif

package checks

import (
	"encoding/json"
	"fmt"
	"reflect"
	"regexp"
	"sort"
	"strings"
	"testing"

	abci "github.com/cometbft/cometbft/abci/types"
	dbm "github.com/cometbft/cometbft-db"
	"github.com/cometbft/cometbft/libs/log"
	"github.com/cosmos/cosmos-sdk/baseapp"
	simtestutil "github.com/cosmos/cosmos-sdk/testutil/sims"
	sdk "github.com/cosmos/cosmos-sdk/types"
	"github.com/ethereum/go-ethereum/common"

	"github.com/haqq-network/haqq/app"
	"github.com/haqq-network/haqq/encoding"
	vestingtypes "github.com/haqq-network/haqq/x/vesting/types"

	"verif/harness/report"
	"verif/harness/vn"
)

func TestC19(t *testing.T) {
	r := report.Start("C19")
	defer r.Finish()
	nh := r.Cases(32, 800)
	for i := 0; i < nh; i++ {
		id := fmt.Sprintf("hist/%d", i)
		if !r.Want(id, i) {
			continue
		}
		c19History(r, id)
	}
}

var reIndex = regexp.MustCompile(`\[\d+\]`)

// jsonDiff lists the paths at which two JSON documents differ.
func jsonDiff(path string, a, b any, out *[]string) {
	if len(*out) > 40 {
		return
	}
	switch av := a.(type) {
	case map[string]any:
		bv, ok := b.(map[string]any)
		if !ok {
			*out = append(*out, path+" (type)")
			return
		}
		keys := map[string]bool{}
		for k := range av {
			keys[k] = true
		}
		for k := range bv {
			keys[k] = true
		}
		var ks []string
		for k := range keys {
			ks = append(ks, k)
		}
		sort.Strings(ks)
		for _, k := range ks {
			x, okx := av[k]
			y, oky := bv[k]
			if !okx || !oky {
				*out = append(*out, path+"."+k+" (only on one side)")
				continue
			}
			jsonDiff(path+"."+k, x, y, out)
		}
	case []any:
		bv, ok := b.([]any)
		if !ok {
			*out = append(*out, path+" (type)")
			return
		}
		if len(av) != len(bv) {
			*out = append(*out, fmt.Sprintf("%s (length %d vs %d)", path, len(av), len(bv)))
			return
		}
		for i := range av {
			jsonDiff(fmt.Sprintf("%s[%d]", path, i), av[i], bv[i], out)
		}
	default:
		if !reflect.DeepEqual(a, b) {
			*out = append(*out, fmt.Sprintf("%s (%v vs %v)", path, trimv(a), trimv(b)))
		}
	}
}

func trimv(v any) string {
	s := fmt.Sprint(v)
	if len(s) > 60 {
		s = s[:60] + "…"
	}
	return s
}

func newAppFromExport(chainID string, exp []byte, cp *abci.RequestInitChain) *app.Haqq {
	a := app.NewHaqq(log.NewNopLogger(), dbm.NewMemDB(), nil, true, map[int64]bool{}, app.DefaultNodeHome, 5,
		encoding.MakeConfig(app.ModuleBasics), simtestutil.NewAppOptionsWithFlagHome(app.DefaultNodeHome), baseapp.SetChainID(chainID))
	a.InitChain(*cp)
	a.Commit()
	return a
}

func c19History(r *report.R, id string) {
	h, _ := histCfgFor(r, id)
	g := newHistGen(h, r.Rand(id))
	n := g.n
	nblocks := 25 + r.Rand(id+"/len").Intn(r.Pick(60, 140))
	if r.Rand(id+"/focus").Intn(4) == 0 {
		// one history in four dwells on the Haqq modules with the richest genesis state: vesting
		// accounts, liquid denoms and their token pairs, DAO holders (also of several denoms)
		g.focus = []int{21, 22, 23, 24, 25, 26, 27}
	}
	for b := 0; b < nblocks; b++ {
		g.block()
	}
	r.Eval(1)
	// G1 = Export(A)
	exp1, err := n.App.ExportAppStateAndValidators(false, nil, nil)
	if err != nil {
		r.Violation(id, "export-failed", err.Error(), map[string]any{"cfg": h})
		return
	}
	req := abci.RequestInitChain{Time: n.Time, ChainId: h.ChainID, ConsensusParams: exp1.ConsensusParams, AppStateBytes: exp1.AppState, InitialHeight: exp1.Height}
	var bApp *app.Haqq
	func() {
		defer func() {
			if rec := recover(); rec != nil {
				what := fmt.Sprintf("%.400v", rec)
				cls := "other"
				if strings.Contains(what, "expiration must be after the current block time") {
					// x/authz exports every stored grant; its InitGenesis skips those that expired
					// before the import time and refuses one that expires exactly at it
					cls = "authz-grant-expiring-exactly-at-the-import-time"
				}
				r.Violation(id, "import-panicked|"+cls, "InitChain with the exported genesis panicked: "+what, map[string]any{"cfg": h, "height": n.Height})
			}
		}()
		bApp = newAppFromExport(h.ChainID, exp1.AppState, &req)
	}()
	if bApp == nil {
		return
	}
	exp2, err := bApp.ExportAppStateAndValidators(false, nil, nil)
	if err != nil {
		r.Violation(id, "re-export-failed", err.Error(), nil)
		return
	}
	var g1, g2 map[string]any
	vn.Must(json.Unmarshal(exp1.AppState, &g1))
	vn.Must(json.Unmarshal(exp2.AppState, &g2))
	var diffs []string
	jsonDiff("", g1, g2, &diffs)
	kinds := c19Kinds(n, g)
	if len(diffs) > 0 {
		seen := map[string]bool{}
		for _, d := range diffs {
			p := strings.SplitN(d, " (", 2)[0]
			norm := reIndex.ReplaceAllString(p, "[]")
			if norm == ".ibc.client_genesis.clients[].client_state.latest_height.revision_height" {
				// ibc-go's 09-localhost client mirrors the current block height (rewritten in every
				// BeginBlock); after import it shows the import height. Derived data of an upstream
				// module, not lost or invented state.
				r.Count("ignored/ibc-localhost-client-height", 1)
				continue
			}
			mod := strings.SplitN(strings.TrimPrefix(norm, "."), ".", 2)[0]
			sig := "re-export-differs|" + mod + "|" + norm
			if seen[sig] {
				continue
			}
			seen[sig] = true
			r.Violation(id, sig, fmt.Sprintf("export → import → export changes the document at %s", d), map[string]any{"cfg": h, "height": n.Height, "first_diffs": diffs[:minInt(len(diffs), 8)]})
		}
		if len(seen) > 0 {
			return
		}
	}
	r.Count("documents_equal", 1)
	// the imported chain holds the same module state: raw stores of the Haqq modules and of
	// auth/bank must be equal key by key (queries are functions of these)
	ctxA := n.App.NewContext(true, n.Header)
	ctxB := bApp.NewContext(true, n.Header)
	nb := &vn.Node{App: bApp}
	stores := []string{"evm", "erc20", "liquidvesting", "ucdao", "coinomics", "epochs", "acc", "bank", "feemarket"}
	sa, sb := n.Snapshot(ctxA, stores...), nb.Snapshot(ctxB, stores...)
	bad := false
	for _, c := range vn.Diff(sa, sb) {
		if c19Ignorable(c) {
			continue
		}
		cls := c19KeyClass(c)
		r.Violation(id, "imported-state-differs|"+c.Store+"|"+cls, fmt.Sprintf("store %s differs after import: %s", c.Store, c.String()), map[string]any{"cfg": h, "height": n.Height})
		bad = true
		break
	}
	if bad {
		return
	}
	r.Count("module_stores_equal", 1)
	// a few queries through the public query services, as a cross-check of the store comparison
	for _, c := range g.contracts {
		if i := len(g.contracts); i > 6 {
			break
		}
		ca, cb := n.App.EvmKeeper.GetAccountWithoutBalance(ctxA, c), bApp.EvmKeeper.GetAccountWithoutBalance(ctxB, c)
		if (ca == nil) != (cb == nil) || (ca != nil && (string(ca.CodeHash) != string(cb.CodeHash) || len(n.App.EvmKeeper.GetCode(ctxA, common.BytesToHash(ca.CodeHash))) != len(bApp.EvmKeeper.GetCode(ctxB, common.BytesToHash(cb.CodeHash))))) {
			r.Violation(id, "query-differs|evm.code", "contract "+c.Hex()+" has different code after import", nil)
			return
		}
	}
	r.Count("queries_equal", 1)
	if kinds >= 5 {
		r.Nontriv(fmt.Sprintf("%s|kinds%d|blocks%d", id, kinds, bucket(int(n.Height)/10)))
	}
	r.Sample("history", map[string]any{"id": id, "cfg": h, "blocks": n.Height, "state_kinds": kinds, "app_state_bytes": len(exp1.AppState)})
	for k, v := range g.constr {
		r.Count("construct/"+k, v)
	}
}

func minInt(a, b int) int {
	if a < b {
		return a
	}
	return b
}

// c19Kinds counts which Haqq object kinds the final state contains.
func c19Kinds(n *vn.Node, g *histGen) int {
	ctx := n.App.NewContext(true, n.Header)
	k := 0
	if len(g.contracts) > 0 {
		k++ // contracts with code and storage
	}
	if len(n.App.Erc20Keeper.GetTokenPairs(ctx)) > 0 {
		k++
	}
	hasVest := false
	n.App.AccountKeeper.IterateAccounts(ctx, func(a authAccountI) bool {
		if _, ok := a.(*vestingtypes.ClawbackVestingAccount); ok {
			hasVest = true
			return true
		}
		return false
	})
	if hasVest {
		k++
	}
	if len(n.App.LiquidVestingKeeper.GetAllDenoms(ctx)) > 0 {
		k++
	}
	if !n.App.DaoKeeper.GetTotalBalance(ctx).IsZero() {
		k++
	}
	if !n.App.CoinomicsKeeper.GetPrevBlockTS(ctx).IsZero() {
		k++ // minting in progress
	}
	if g.constr["vesting-account-that-is-a-contract"] > 0 {
		k++
	}
	return k
}

// c19Ignorable: keys that legitimately differ between a running chain and one freshly
// initialised from its export.
func c19Ignorable(c vn.Change) bool {
	return false
}

func c19KeyClass(c vn.Change) string {
	if len(c.Key) == 0 {
		return "empty"
	}
	return fmt.Sprintf("prefix%02x", c.Key[0])
}

var _ = sdk.AccAddress{}
