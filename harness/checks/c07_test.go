//go:build verif

package checks

import (
	"fmt"
	"math/big"
	"testing"

	sdkmath "cosmossdk.io/math"
	"github.com/cosmos/cosmos-sdk/codec"
	codectypes "github.com/cosmos/cosmos-sdk/codec/types"
	sdk "github.com/cosmos/cosmos-sdk/types"
	authtypes "github.com/cosmos/cosmos-sdk/x/auth/types"
	banktypes "github.com/cosmos/cosmos-sdk/x/bank/types"
	"github.com/ethereum/go-ethereum/common"
	ethtypes "github.com/ethereum/go-ethereum/core/types"

	haqqtypes "github.com/haqq-network/haqq/types"
	feemarkettypes "github.com/haqq-network/haqq/x/feemarket/types"

	"verif/harness/evmasm"
	"verif/harness/report"
	"verif/harness/vn"
)

func TestC07(t *testing.T) {
	r := report.Start("C07")
	defer r.Finish()
	nh := r.Cases(96, 4800)
	for i := 0; i < nh; i++ {
		id := fmt.Sprintf("hist/%d", i)
		if !r.Want(id, i) {
			continue
		}
		c07History(r, id)
	}
}

func c07History(r *report.R, id string) {
	rng := r.Rand(id)
	minGP := []sdk.Dec{sdk.ZeroDec(), sdk.NewDec(7), sdk.MustNewDecFromStr("1500000000.5"), sdk.NewDec(40_000_000_000)}[rng.Intn(4)]
	mult := []sdk.Dec{sdk.ZeroDec(), sdk.NewDecWithPrec(5, 1), sdk.OneDec(), sdk.NewDecWithPrec(int64(rng.Intn(1000)), 3)}[rng.Intn(4)]
	baseOn := rng.Intn(3) > 0
	var base0 sdkmath.Int
	switch rng.Intn(3) {
	case 0:
		base0 = sdkmath.NewInt(1_000_000_000)
	case 1:
		base0 = minGP.TruncateInt().QuoRaw(2).AddRaw(1) // far below the min price
	default:
		base0 = minGP.TruncateInt().MulRaw(3).AddRaw(5)
	}
	cfgClass := fmt.Sprintf("min%s|mult%s|base%v", decClass(minGP), decClass(mult), baseOn)
	cfg := vn.Config{Seed: uint64(r.Seed), NumVals: 1, NumAccounts: 8, AccountBalance: sdkmath.NewIntWithDecimal(1, 30)}
	cfg.Mutate = func(cdc codec.Codec, gs haqqtypes.GenesisState) {
		fm := feemarkettypes.DefaultGenesisState()
		fm.Params.NoBaseFee = !baseOn
		fm.Params.BaseFee = base0
		fm.Params.MinGasPrice = minGP
		fm.Params.MinGasMultiplier = mult
		gs[feemarkettypes.ModuleName] = cdc.MustMarshalJSON(fm)
	}
	n := vn.New(cfg)
	coll := authtypes.NewModuleAddress(authtypes.FeeCollectorName)
	deployer := n.Accounts[7]
	nfresh := 0
	fresh := func() common.Address {
		nfresh++
		return vn.DetAccount(uint64(r.Seed)^0x77, id, nfresh).Eth
	}
	eoas := []common.Address{n.Accounts[4].Eth, n.Accounts[5].Eth, n.Accounts[0].Eth}
	var trace []string
	curBase := func() *big.Int {
		if !baseOn {
			return new(big.Int)
		}
		return n.App.FeeMarketKeeper.GetParams(n.Ctx()).BaseFee.BigInt()
	}
	// floor price in whole units: smallest integer price p with p·gas ≥ minGP·gas
	floorPrice := func() *big.Int {
		f := minGP.Ceil().TruncateInt().BigInt()
		if b := curBase(); b.Cmp(f) > 0 {
			return b
		}
		return f
	}
	n.BeginBlock(vn.BlockOpts{})
	ntx := 14 + rng.Intn(r.Pick(12, 24))
hist:
	for k := 0; k < ntx; k++ {
		if k > 0 && rng.Intn(4) == 0 {
			n.EndBlock()
			n.Commit()
			n.BeginBlock(vn.BlockOpts{})
		}
		r.Eval(1)
		a := n.Accounts[rng.Intn(4)]
		base := curBase()
		fl := floorPrice()
		family := rng.Intn(10)
		switch {
		case family < 5: // executed Ethereum transaction with a generated program
			typ := rng.Intn(3)
			price := new(big.Int).Add(fl, big.NewInt(int64(rng.Intn(3))*1_000_000_007))
			tip := big.NewInt(int64(rng.Intn(3)) * 1_000_003)
			if tip.Cmp(price) > 0 {
				tip = new(big.Int).Set(price)
			}
			var tx *ethtypes.Transaction
			var addrs []common.Address
			outcome := ""
			gasLimit := uint64(200000 + rng.Intn(2_000_000))
			args := vn.EthArgs{Type: typ, Nonce: n.EthNonce(a.Eth), Gas: gasLimit, GasPrice: price, GasFeeCap: price, GasTipCap: tip, Value: big.NewInt(int64(rng.Intn(100)))}
			shape := ""
			switch rng.Intn(4) {
			case 0: // plain transfer
				to := eoas[rng.Intn(len(eoas))]
				if rng.Intn(3) == 0 {
					to = fresh()
				}
				args.To, args.Gas = &to, uint64(21000+rng.Intn(30000))
				addrs = []common.Address{to}
				shape = "transfer"
			case 1: // contract creation, possibly failing
				p := genProg(rng, 2, eoas, fresh)
				sub, err := deployProg(n, deployer, p) // children exist; the root is created by the measured tx
				if err != nil {
					r.Note("deploy: %v", err)
					continue
				}
				var ctor []evmasm.Step
				ctor = append(ctor, p.pre...)
				ctor = append(ctor, p.steps[1:]...) // without the calldata guard (a constructor has no calldata)
				args.To, args.Data = nil, evmasm.InitCode(ctor, []evmasm.Step{evmasm.Stop{}})
				args.Nonce = n.EthNonce(a.Eth)
				addrs = append(sub, p.targets()...)
				addrs = append(addrs, vn.CreateAddress(a.Eth, args.Nonce))
				shape = "create" + p.shape()
			default:
				p := genProg(rng, 3, eoas, fresh)
				all, err := deployProg(n, deployer, p)
				if err != nil {
					r.Note("deploy: %v", err)
					continue
				}
				to := p.addr
				args.To, args.Data = &to, []byte{1}
				if rng.Intn(5) == 0 {
					args.Gas = uint64(21000 + rng.Intn(40000)) // likely out of gas
				}
				addrs = append(all, p.targets()...)
				shape = "call" + p.shape()
			}
			args.Nonce = n.EthNonce(a.Eth)
			tx = n.SignEth(a, args)
			addrs = append(addrs, a.Eth)
			effPrice := new(big.Int).Set(tx.GasPrice())
			if typ == 2 {
				effPrice = new(big.Int).Add(tx.GasTipCap(), base)
				if effPrice.Cmp(tx.GasFeeCap()) > 0 {
					effPrice = new(big.Int).Set(tx.GasFeeCap())
				}
			}
			ref := gethRef(n, tx, base, addrs)
			sBefore, cBefore := n.Balance(a.Addr, vn.Denom), n.Balance(coll, vn.Denom)
			seq := n.Seq(a.Addr)
			res := n.Deliver(n.WrapEth(tx))
			passed := n.Seq(a.Addr) > seq
			trace = append(trace, fmt.Sprintf("eth type%d gas=%d price=%s eff=%s %s code=%d", typ, tx.Gas(), tx.GasPrice(), effPrice, shape, res.Code))
			if len(trace) > 8 {
				trace = trace[len(trace)-8:]
			}
			if !passed {
				r.Count("eth_rejected_by_ante", 1)
				r.Note("eth tx rejected: %.100s", res.Log)
				continue
			}
			ers := vn.EthResult(res)
			if res.Code != 0 || len(ers) != 1 {
				r.Count("eth_passed_ante_but_tx_error", 1)
				continue
			}
			gasUsed := ers[0].GasUsed
			outcome = "success"
			if ers[0].VmError != "" {
				outcome = "vm-error"
				if gasUsed == tx.Gas() {
					outcome = "out-of-gas-or-all-gas"
				}
			}
			sig := func(what string) string { return fmt.Sprintf("eth-type%d|%s|%s", typ, outcome, what) }
			detail := map[string]any{"cfg": cfgClass, "trace": trace, "shape": shape}
			dColl := n.Balance(coll, vn.Denom).Sub(cBefore)
			wantFee := sdkmath.NewIntFromBigInt(new(big.Int).Mul(effPrice, new(big.Int).SetUint64(gasUsed)))
			if !dColl.Equal(wantFee) {
				r.Violation(id, sig("fee-collector≠gasUsed×effectivePrice"), fmt.Sprintf("collector received %s, gasUsed %d × price %s = %s (gas limit %d)", dColl, gasUsed, effPrice, wantFee, tx.Gas()), detail)
				break hist
			}
			if gasUsed > tx.Gas() {
				r.Violation(id, sig("gasUsed>gasLimit"), fmt.Sprintf("%d > %d", gasUsed, tx.Gas()), detail)
				break hist
			}
			minUsed := sdk.NewDec(int64(tx.Gas())).Mul(mult).TruncateInt().Uint64()
			if ref.Err != nil {
				r.Count("geth_reference_unavailable", 1)
				r.Note("geth ref: %v", ref.Err)
				if gasUsed < minUsed {
					r.Violation(id, sig("gasUsed<multiplier×limit"), fmt.Sprintf("%d < %d", gasUsed, minUsed), detail)
					break hist
				}
			} else {
				want := ref.UsedGas
				if minUsed > want {
					want = minUsed
				}
				if gasUsed != want {
					r.Violation(id, sig("gasUsed≠max(reference gas, multiplier×limit)"), fmt.Sprintf("gasUsed %d, geth reference %d (failed=%v), multiplier×limit %d, limit %d", gasUsed, ref.UsedGas, ref.Failed, minUsed, tx.Gas()), detail)
					break hist
				}
				if ref.Failed != (ers[0].VmError != "") {
					r.Violation(id, sig("outcome≠reference"), fmt.Sprintf("vmError=%q reference failed=%v", ers[0].VmError, ref.Failed), detail)
					break hist
				}
				// sender: what geth leaves the sender with, minus the extra gas charged by the multiplier
				wantS := sdkmath.NewIntFromBigInt(ref.Balances[a.Eth]).Sub(sdkmath.NewIntFromBigInt(new(big.Int).Mul(effPrice, new(big.Int).SetUint64(gasUsed-ref.UsedGas))))
				if gotS := n.Balance(a.Addr, vn.Denom); !gotS.Equal(wantS) {
					r.Violation(id, sig("sender-net-payment"), fmt.Sprintf("sender balance %s → %s, expected %s (reference %s, gasUsed %d vs reference %d at price %s)", sBefore, gotS, wantS, ref.Balances[a.Eth], gasUsed, ref.UsedGas, effPrice), detail)
					break hist
				}
				r.Count("gas_matched_geth_reference", 1)
			}
			side := "multiplier-binds"
			if ref.Err == nil && ref.UsedGas >= minUsed {
				side = "evm-gas-binds"
			}
			r.Count("eth_executed/"+outcome, 1)
			kind := "call"
			if args.To == nil {
				kind = "create"
			} else if shape == "transfer" {
				kind = "transfer"
			}
			r.Nontriv(fmt.Sprintf("exec|%s|type%d|%s|%s|%s", cfgClass, typ, kind, outcome, side))
			r.Sample("exec-"+kind, map[string]any{"cfg": cfgClass, "shape": shape, "gasUsed": gasUsed, "ref": ref.UsedGas, "limit": tx.Gas()})
		case family < 6: // several Ethereum messages in one transaction
			cnt := 2 + rng.Intn(2)
			var txs []*ethtypes.Transaction
			nonce := n.EthNonce(a.Eth)
			want := new(big.Int)
			price := new(big.Int).Add(fl, big.NewInt(3))
			for i := 0; i < cnt; i++ {
				to := eoas[rng.Intn(len(eoas))]
				g := uint64(21000 + rng.Intn(100000))
				txs = append(txs, n.SignEth(a, vn.EthArgs{Type: 0, Nonce: nonce + uint64(i), To: &to, Value: big.NewInt(3), Gas: g, GasPrice: price}))
			}
			cBefore := n.Balance(coll, vn.Denom)
			res := n.Deliver(n.WrapEth(txs...))
			ers := vn.EthResult(res)
			if res.Code != 0 || len(ers) != cnt {
				r.Note("multi rejected: %.100s", res.Log)
				continue
			}
			bad := false
			for i, e := range ers {
				minUsed := sdk.NewDec(int64(txs[i].Gas())).Mul(mult).TruncateInt().Uint64()
				w := uint64(21000)
				if minUsed > w {
					w = minUsed
				}
				if e.GasUsed != w {
					r.Violation(id, "eth-multi|gasUsed≠max(21000, multiplier×limit)", fmt.Sprintf("message %d: gasUsed %d want %d (limit %d)", i, e.GasUsed, w, txs[i].Gas()), trace)
					bad = true
				}
				want.Add(want, new(big.Int).Mul(price, new(big.Int).SetUint64(e.GasUsed)))
			}
			if d := n.Balance(coll, vn.Denom).Sub(cBefore); !bad && d.BigInt().Cmp(want) != 0 {
				r.Violation(id, "eth-multi|fee-collector≠Σ gasUsed×price", fmt.Sprintf("collector received %s want %s", d, want), trace)
				bad = true
			}
			if bad {
				break hist
			}
			r.Count("eth_executed/multi", 1)
			r.Nontriv("exec|" + cfgClass + "|multi-message")
		case family < 8: // floor probes on the Ethereum route
			typ := rng.Intn(3)
			off := int64(rng.Intn(3)) - 1 // floor-1, floor, floor+1 against the network minimum gas price
			minP := minGP.Ceil().TruncateInt().BigInt()
			price := new(big.Int).Add(minP, big.NewInt(off))
			if price.Sign() < 0 {
				continue
			}
			to := eoas[0]
			gas := uint64(21000 + rng.Intn(50000))
			args := vn.EthArgs{Type: typ, Nonce: n.EthNonce(a.Eth), To: &to, Gas: gas, GasPrice: price, GasFeeCap: price, GasTipCap: price}
			seq := n.Seq(a.Addr)
			res := n.Deliver(n.EthTx(a, args))
			passed := n.Seq(a.Addr) > seq
			// effective price actually offered
			eff := new(big.Int).Set(price)
			belowMin := sdk.NewDecFromBigInt(eff).LT(minGP)
			belowBase := baseOn && price.Cmp(base) < 0
			side := map[int64]string{-1: "floor-1", 0: "floor", 1: "floor+1"}[off]
			if passed && (belowMin || belowBase) {
				why := "fee below gasLimit×minGasPrice"
				if belowBase {
					why = "fee cap below base fee"
				}
				r.Violation(id, fmt.Sprintf("accept|eth-type%d|%s", typ, why), fmt.Sprintf("accepted with price %s (min gas price %s, base fee %s) code=%d", price, minGP, base, res.Code), trace)
				break hist
			}
			if belowMin || belowBase {
				r.Count("floor_probe_rejected", 1)
				r.Nontriv(fmt.Sprintf("floor|%s|eth-type%d|%s|rejected", cfgClass, typ, side))
			} else if passed {
				r.Count("floor_probe_accepted", 1)
				r.Nontriv(fmt.Sprintf("floor|%s|eth-type%d|%s|accepted", cfgClass, typ, side))
			}
		default: // floor probes on the Cosmos route
			gas := uint64(150000 + rng.Intn(200000))
			req := minGP.MulInt64(int64(gas)).Ceil().TruncateInt() // ceil(minGasPrice × gas)
			off := int64(rng.Intn(3)) - 1
			fee := req.AddRaw(off)
			if fee.IsNegative() {
				continue
			}
			var opts []*codectypes.Any
			route := "cosmos"
			feeCoins := sdk.Coins{}
			if fee.IsPositive() {
				feeCoins = sdk.NewCoins(sdk.NewCoin(vn.Denom, fee))
			}
			msgs := []sdk.Msg{banktypes.NewMsgSend(a.Addr, n.Accounts[4].Addr, vn.Coins(1))}
			var txBytes []byte
			switch rng.Intn(5) {
			case 0:
				o, _ := codectypes.NewAnyWithValue(&haqqtypes.ExtensionOptionDynamicFeeTx{MaxPriorityPrice: sdkmath.NewInt(int64(rng.Intn(100)))})
				opts, route = []*codectypes.Any{o}, "cosmos+dynamic-fee"
			case 1, 2: // signed as EIP-712 typed data, carried with the Web3 extension option (its own ante chain)
				route = "web3tx-eip712"
				bz, err := n.EIP712Tx(a, msgs, gas, feeCoins, true, rng.Intn(2) == 0, nil)
				if err != nil {
					r.Count("eip712_build_errors", 1)
					continue
				}
				txBytes = bz
			case 3: // signed as EIP-712 typed data in the ordinary signature slot
				route = "eip712-sign-mode"
				bz, err := n.EIP712Tx(a, msgs, gas, feeCoins, false, rng.Intn(2) == 0, nil)
				if err != nil {
					r.Count("eip712_build_errors", 1)
					continue
				}
				txBytes = bz
			}
			if txBytes == nil {
				txBytes = n.CosmosTx(vn.CosmosArgs{Msgs: msgs, Gas: gas, Fee: feeCoins, ExtOpts: opts}, a)
			}
			seq := n.Seq(a.Addr)
			res := n.Deliver(txBytes)
			passed := n.Seq(a.Addr) > seq
			side := map[int64]string{-1: "floor-1", 0: "floor", 1: "floor+1"}[off]
			below := fee.LT(req)
			if passed && below {
				r.Violation(id, "accept|"+route+"|fee below gasLimit×minGasPrice", fmt.Sprintf("accepted fee %s < required %s (gas %d, min gas price %s) code=%d", fee, req, gas, minGP, res.Code), trace)
				break hist
			}
			if below {
				r.Count("floor_probe_rejected", 1)
				r.Nontriv(fmt.Sprintf("floor|%s|%s|%s|rejected", cfgClass, route, side))
			} else if passed {
				r.Count("floor_probe_accepted", 1)
				r.Nontriv(fmt.Sprintf("floor|%s|%s|%s|accepted", cfgClass, route, side))
			}
		}
	}
	n.EndBlock()
	n.Commit()
}

func decClass(d sdk.Dec) string {
	switch {
	case d.IsZero():
		return "0"
	case d.Equal(sdk.OneDec()):
		return "1"
	case d.LT(sdk.OneDec()):
		return "frac"
	case d.LT(sdk.NewDec(1000)):
		return "small"
	case d.IsInteger():
		return "big"
	default:
		return "big-frac"
	}
}
