//go:build verif

package checks

import (
	"encoding/base64"
	"fmt"
	"math/big"
	"math/rand"
	"strings"
	"testing"
	"time"

	sdkmath "cosmossdk.io/math"
	abci "github.com/cometbft/cometbft/abci/types"
	"github.com/cosmos/cosmos-sdk/crypto/keys/ed25519"
	sdk "github.com/cosmos/cosmos-sdk/types"
	sdkvesting "github.com/cosmos/cosmos-sdk/x/auth/vesting/types"
	"github.com/cosmos/cosmos-sdk/x/authz"
	banktypes "github.com/cosmos/cosmos-sdk/x/bank/types"
	distrtypes "github.com/cosmos/cosmos-sdk/x/distribution/types"
	"github.com/cosmos/cosmos-sdk/x/feegrant"
	govv1beta1 "github.com/cosmos/cosmos-sdk/x/gov/types/v1beta1"
	stakingtypes "github.com/cosmos/cosmos-sdk/x/staking/types"
	transfertypes "github.com/cosmos/ibc-go/v7/modules/apps/transfer/types"
	clienttypes "github.com/cosmos/ibc-go/v7/modules/core/02-client/types"
	"github.com/ethereum/go-ethereum/common"

	ics20pc "github.com/haqq-network/haqq/precompiles/ics20"
	stakingpc "github.com/haqq-network/haqq/precompiles/staking"
	erc20types "github.com/haqq-network/haqq/x/erc20/types"
	ucdaotypes "github.com/haqq-network/haqq/x/ucdao/types"
	vestingtypes "github.com/haqq-network/haqq/x/vesting/types"

	"verif/harness/evmasm"
	"verif/harness/report"
	"verif/harness/vn"
)

// C08: locked and unvested coins cannot leave a clawback-vesting account.
//
// Events observed: the bank balance of every vesting account in every vesting denomination
// immediately before and after every transaction of a mixed history, together with the account's
// stored schedule and delegation tracking after the transaction.
// Oracle (debit form): a transaction that lowered the balance must leave it at or above the
// locked amount max(original - unlockedVested - trackedDelegated, unvested) — at or above the
// unvested amount when it is a staking delegation — where unlocked/vested are read by the
// harness's own step function from the stored period lists (no EndTime short-cuts) and
// trackedDelegated is the smaller of the account's own tracking and the harness's tally of the
// holder's delegations.  A funder's clawback is the one transaction that may take unvested coins.

func TestC08(t *testing.T) {
	r := report.Start("C08")
	defer r.Finish()
	nh := r.Cases(96, 2400)
	for i := 0; i < nh; i++ {
		id := fmt.Sprintf("hist/%d", i)
		if !r.Want(id, i) {
			continue
		}
		c08History(r, id)
	}
}

type c08Holder struct {
	acc        vn.Account
	name       string
	denoms     []string
	dRef       sdkmath.Int // harness tally of coins the holder has in delegations made from its balance
	feeGrant   bool
	sendGrant  bool
	stakeGrant bool
}

type c08Env struct {
	r       *report.R
	id      string
	rng     *rand.Rand
	n       *vn.Node
	lb      *vn.Loopback
	funder  vn.Account
	grantee vn.Account
	sink    vn.Account
	holders []*c08Holder
	trace   []string
	stk     stakingABI
	sinkC   common.Address // payable contract
	bad     bool
}

type stakingABI struct {
	pack func(string, ...any) ([]byte, error)
}

func c08Periods(rng *rand.Rand, denoms []string, total map[string]sdkmath.Int, maxN int, minLen int64) sdkvesting.Periods {
	k := 1 + rng.Intn(maxN)
	var ps sdkvesting.Periods
	rem := map[string]sdkmath.Int{}
	for d, v := range total {
		rem[d] = v
	}
	for i := 0; i < k; i++ {
		amt := sdk.NewCoins()
		for _, d := range denoms {
			var part sdkmath.Int
			if i == k-1 {
				part = rem[d]
			} else {
				part = sdkmath.NewIntFromBigInt(new(big.Int).Rand(rng, rem[d].BigInt()))
				if rng.Intn(4) == 0 {
					part = sdkmath.ZeroInt()
				}
			}
			if part.IsPositive() {
				amt = amt.Add(sdk.NewCoin(d, part))
				rem[d] = rem[d].Sub(part)
			}
		}
		if amt.IsZero() {
			continue
		}
		var l int64
		switch rng.Intn(6) {
		case 0:
			l = minLen
		case 1:
			l = minLen + int64(rng.Intn(5))
		default:
			l = minLen + int64(rng.Intn(400))
		}
		ps = append(ps, sdkvesting.Period{Length: l, Amount: amt})
	}
	return ps
}

func (e *c08Env) log(format string, a ...any) {
	e.trace = append(e.trace, fmt.Sprintf("t=%d h=%d ", e.n.Time.Unix(), e.n.Height)+fmt.Sprintf(format, a...))
}

func (e *c08Env) va(h *c08Holder) *vestingtypes.ClawbackVestingAccount {
	acc := e.n.App.AccountKeeper.GetAccount(e.n.Ctx(), h.acc.Addr)
	va, _ := acc.(*vestingtypes.ClawbackVestingAccount)
	return va
}

// ref holds the harness's reading of a stored account at time t for one denom.
type c08Ref struct {
	original, unlocked, vested, uv, luv, tracked, dEff, locked, unvested sdkmath.Int
}

func (e *c08Env) ref(h *c08Holder, va *vestingtypes.ClawbackVestingAccount, d string, t int64) c08Ref {
	get := func(m map[string]sdkmath.Int) sdkmath.Int {
		if v, ok := m[d]; ok {
			return v
		}
		return sdkmath.ZeroInt()
	}
	var x c08Ref
	x.original = va.OriginalVesting.AmountOf(d)
	x.unlocked = get(refRead(va.GetStartTime(), va.LockupPeriods, t))
	x.vested = get(refRead(va.GetStartTime(), va.VestingPeriods, t))
	x.uv = sdkmath.MinInt(x.unlocked, x.vested)
	x.luv = x.vested.Sub(x.uv)
	x.tracked = va.DelegatedFree.AmountOf(d).Add(va.DelegatedVesting.AmountOf(d))
	x.dEff = x.tracked
	if d == vn.Denom && h.dRef.LT(x.dEff) {
		x.dEff = h.dRef
	}
	x.unvested = x.original.Sub(x.vested)
	x.locked = x.original.Sub(x.uv).Sub(sdkmath.MinInt(x.dEff, x.luv))
	if x.locked.LT(x.unvested) {
		x.locked = x.unvested
	}
	return x
}

func (e *c08Env) phase(x c08Ref) string {
	switch {
	case x.original.IsZero():
		return "nothing-vesting"
	case x.vested.IsZero() && x.unlocked.IsZero():
		return "all-unvested-all-locked"
	case x.vested.Equal(x.original) && x.unlocked.Equal(x.original):
		return "fully-vested-fully-unlocked"
	case x.vested.Equal(x.original):
		if x.unlocked.IsZero() {
			return "fully-vested-all-locked"
		}
		return "fully-vested-partly-unlocked"
	case x.unlocked.Equal(x.original):
		return "partly-vested-fully-unlocked"
	case x.vested.IsZero():
		return "unvested-partly-unlocked"
	case x.unlocked.IsZero():
		return "partly-vested-all-locked"
	}
	return "partly-vested-partly-unlocked"
}

type c08Bal map[string]map[string]sdkmath.Int // holder name -> denom -> balance

func (e *c08Env) balances() c08Bal {
	out := c08Bal{}
	for _, h := range e.holders {
		m := map[string]sdkmath.Int{}
		for _, d := range h.denoms {
			m[d] = e.n.Balance(h.acc.Addr, d)
		}
		out[h.name] = m
	}
	return out
}

// judge applies the oracle to every holder after one transaction.
// kind: "spend" | "delegation" | "clawback" | "credit"
func (e *c08Env) judge(path, kind string, actor *c08Holder, before c08Bal, ok bool, amtClass string) {
	t := e.n.Time.Unix()
	for _, h := range e.holders {
		va := e.va(h)
		if va == nil {
			continue
		}
		for _, d := range h.denoms {
			b, a := before[h.name][d], e.n.Balance(h.acc.Addr, d)
			e.r.Eval(1)
			if !a.LT(b) {
				continue
			}
			x := e.ref(h, va, d, t)
			ph := e.phase(x)
			e.r.Count("debits_judged", 1)
			if kind == "clawback" {
				continue // the funder takes back what has not vested: checked by C09
			}
			floor, what := x.locked, "locked"
			if kind == "delegation" && h == actor {
				floor, what = x.unvested, "unvested"
			}
			if a.LT(floor) {
				outcome := "tx-succeeded"
				if !ok {
					outcome = "tx-failed(fee)"
				}
				den := "bond-denom"
				if d != vn.Denom {
					den = "other-denom"
				}
				e.bad = true
				e.r.Violation(e.id, fmt.Sprintf("%s|%s|%s|%s|balance-below-%s", path, ph, den, outcome, what),
					fmt.Sprintf("%s: balance of %s fell from %s to %s %s, below the %s amount %s (original %s, unlocked %s, vested %s, tracked delegated %s / tallied %s) at t=%d; account start=%d end=%d lockup=%s vesting=%s",
						path, h.name, b, a, d, what, floor, x.original, x.unlocked, x.vested, x.tracked, h.dRef, t, va.GetStartTime(), va.EndTime, periodsStr(va.LockupPeriods), periodsStr(va.VestingPeriods)),
					map[string]any{"trace": tailStr(e.trace, 40)})
				return
			}
			if h == actor {
				e.r.Count("debit_respects_floor/"+path, 1)
				if x.locked.IsPositive() {
					e.r.Nontriv(path + "|" + ph + "|" + amtClass + "|debited")
				}
			}
		}
	}
	if actor != nil && !ok {
		if va := e.va(actor); va != nil {
			x := e.ref(actor, va, vn.Denom, t)
			if amtClass == "over-spendable" || amtClass == "everything" {
				e.r.Count("guard_rejected/"+path, 1)
				if x.locked.IsPositive() {
					e.r.Nontriv(path + "|" + e.phase(x) + "|" + amtClass + "|rejected")
				}
			}
		}
	}
}

// spendAmount picks an amount relative to what the reference says is spendable.
func (e *c08Env) spendAmount(h *c08Holder, d string, delegation bool) (sdkmath.Int, string) {
	bal := e.n.Balance(h.acc.Addr, d)
	sp := bal
	if va := e.va(h); va != nil {
		x := e.ref(h, va, d, e.n.Time.Unix())
		if delegation {
			sp = bal.Sub(x.unvested)
		} else {
			sp = bal.Sub(x.locked)
		}
	}
	if sp.IsNegative() {
		sp = sdkmath.ZeroInt()
	}
	switch e.rng.Intn(8) {
	case 0:
		if sp.IsPositive() {
			return sp, "exactly-spendable"
		}
		return sdkmath.OneInt(), "over-spendable"
	case 1:
		return sp.AddRaw(1), "over-spendable"
	case 2:
		if bal.IsPositive() {
			return bal, "everything"
		}
		return sdkmath.OneInt(), "over-spendable"
	case 3:
		return sp.Add(sdkmath.NewIntFromBigInt(new(big.Int).Rand(e.rng, new(big.Int).Add(bal.Sub(sp).BigInt(), big.NewInt(2))))).AddRaw(1), "over-spendable"
	case 4:
		return sdkmath.OneInt(), "one"
	}
	if !sp.IsPositive() {
		return sdkmath.NewInt(int64(1 + e.rng.Intn(1000))), "over-spendable"
	}
	return sdkmath.NewIntFromBigInt(new(big.Int).Rand(e.rng, sp.BigInt())).AddRaw(1), "within-spendable"
}

func (e *c08Env) fee() sdk.Coins {
	switch e.rng.Intn(4) {
	case 0:
		return vn.CoinsI(sdkmath.NewInt(int64(1 + e.rng.Intn(1_000_000))))
	case 1:
		return vn.CoinsI(sdkmath.NewIntWithDecimal(int64(1+e.rng.Intn(9)), 15))
	}
	return sdk.NewCoins()
}

func (e *c08Env) cosmos(signer vn.Account, fee sdk.Coins, granter sdk.AccAddress, msgs ...sdk.Msg) abci.ResponseDeliverTx {
	return e.n.Deliver(e.n.CosmosTx(vn.CosmosArgs{Msgs: msgs, Gas: 4_000_000, Fee: fee, FeeGranter: granter}, signer))
}

func (e *c08Env) nextBlock(dt time.Duration) { e.nextBlockOpts(vn.BlockOpts{Dt: dt}) }

func (e *c08Env) nextBlockOpts(o vn.BlockOpts) {
	n := e.n
	res := n.EndBlock()
	// matured unbonding entries return coins: the tally of delegated coins shrinks by what came back
	for _, ev := range res.Events {
		if ev.Type != stakingtypes.EventTypeCompleteUnbonding {
			continue
		}
		var del, amt string
		for _, a := range ev.Attributes {
			switch a.Key {
			case stakingtypes.AttributeKeyDelegator:
				del = a.Value
			case sdk.AttributeKeyAmount:
				amt = a.Value
			}
		}
		for _, h := range e.holders {
			if h.acc.Addr.String() != del {
				continue
			}
			cs, err := sdk.ParseCoinsNormalized(amt)
			if err != nil {
				continue
			}
			back := cs.AmountOf(vn.Denom)
			h.dRef = h.dRef.Sub(sdkmath.MinInt(h.dRef, back))
			e.r.Count("unbondings_matured", 1)
			e.log("unbonding of %s matured: %s returned", h.name, back)
		}
	}
	n.Commit()
	n.BeginBlock(o)
}

func c08History(r *report.R, id string) {
	rng := r.Rand(id)
	cfg := vn.Config{Seed: uint64(r.Seed), NumVals: 3, NumAccounts: 8, ExtraBalances: map[string]sdk.Coins{}}
	_, accs := vn.Keys(cfg)
	cfg.ExtraBalances[accs[0].Addr.String()] = sdk.NewCoins(sdk.NewCoin("utest", sdkmath.NewIntWithDecimal(1, 24)))
	n := vn.New(cfg)
	e := &c08Env{r: r, id: id, rng: rng, n: n, funder: n.Accounts[0], grantee: n.Accounts[2], sink: n.Accounts[3]}
	stABI, err := stakingpc.LoadABI()
	vn.Must(err)
	icsABI := n.App.EvmKeeper.Precompiles(addrICS20)[addrICS20].(*ics20pc.Precompile).ABI
	n.BeginBlock(vn.BlockOpts{})
	meta := banktypes.Metadata{Description: "t", Base: "utest", Display: "test", Name: "utest", Symbol: "TEST",
		DenomUnits: []*banktypes.DenomUnit{{Denom: "utest", Exponent: 0}, {Denom: "test", Exponent: 6}}}
	if _, err := n.App.Erc20Keeper.RegisterCoin(n.Ctx(), meta); err != nil {
		r.Note("register coin: %v", err)
	}
	lb, err := n.OpenLoopback(n.Accounts[7])
	if err != nil {
		r.Note("loopback: %v", err)
	}
	e.lb = lb
	if c, ok := deployPayable(n, n.Accounts[6]); ok {
		e.sinkC = c
	}
	defer func() {
		if n.InBlock {
			n.EndBlock()
			n.Commit()
		}
		r.Sample("history", map[string]any{"id": id, "trace": tailStr(e.trace, 25)})
	}()
	// vesting accounts
	nh := 2 + rng.Intn(2)
	for i := 0; i < nh; i++ {
		h := &c08Holder{acc: vn.DetAccount(uint64(r.Seed), "c08/"+id, i), name: fmt.Sprintf("V%d", i), denoms: []string{vn.Denom}, dRef: sdkmath.ZeroInt()}
		if rng.Intn(3) == 0 {
			h.denoms = append(h.denoms, "utest")
		}
		total := map[string]sdkmath.Int{}
		for _, d := range h.denoms {
			total[d] = sdkmath.NewIntWithDecimal(int64(100+rng.Intn(900)), 18).AddRaw(int64(rng.Intn(1000)))
		}
		lock := c08Periods(rng, h.denoms, total, 4, 1)
		vest := c08Periods(rng, h.denoms, total, 5, 1)
		switch rng.Intn(8) {
		case 0:
			lock = nil // the module defaults to an instant unlock
		case 1:
			vest = nil // the module defaults to instant vesting
		}
		st := n.Time.Unix() + int64(rng.Intn(700)) - 400
		res := e.cosmos(e.funder, sdk.NewCoins(), nil, vestingtypes.NewMsgCreateClawbackVestingAccount(e.funder.Addr, h.acc.Addr, time.Unix(st, 0).UTC(), lock, vest, false))
		if res.Code != 0 {
			r.Note("create vesting account: %.120s", res.Log)
			continue
		}
		// free funds on top: none, too little for most fees, or comfortable
		switch rng.Intn(3) {
		case 1:
			e.cosmos(e.funder, sdk.NewCoins(), nil, banktypes.NewMsgSend(e.funder.Addr, h.acc.Addr, vn.CoinsI(sdkmath.NewIntWithDecimal(1, 14))))
		case 2:
			e.cosmos(e.funder, sdk.NewCoins(), nil, banktypes.NewMsgSend(e.funder.Addr, h.acc.Addr, vn.CoinsI(sdkmath.NewIntWithDecimal(int64(1+rng.Intn(20)), 18))))
		}
		e.holders = append(e.holders, h)
		e.log("created %s start=%d lockup=%s vesting=%s", h.name, st, periodsStr(lock), periodsStr(vest))
	}
	if len(e.holders) == 0 {
		r.Inconcl("no vesting account could be created")
		return
	}
	steps := r.Pick(40, 70)
	for s := 0; s < steps && !e.bad; s++ {
		if rng.Intn(3) == 0 {
			dt := time.Duration(1+rng.Intn(5)) * time.Second
			if rng.Intn(2) == 0 {
				dt = time.Duration(1+rng.Intn(250)) * time.Second
			}
			e.nextBlock(dt)
		}
		e.step(stABI.Pack, icsABI.Pack)
	}
	for _, h := range e.holders {
		if va := e.va(h); va != nil {
			if tr := va.DelegatedFree.AmountOf(vn.Denom).Add(va.DelegatedVesting.AmountOf(vn.Denom)); !tr.Equal(h.dRef) {
				r.Count("tracking_differs_from_tally(noted)", 1)
				r.Note("%s %s: account tracks %s delegated, harness tally %s", id, h.name, tr, h.dRef)
			}
		}
	}
}

func deployPayable(n *vn.Node, from vn.Account) (common.Address, bool) {
	addr, res := n.Deploy(from, evmasm.InitCode(nil, []evmasm.Step{evmasm.Stop{}}), nil)
	er := vn.EthResult(res)
	return addr, res.Code == 0 && len(er) == 1 && er[0].VmError == ""
}

func (e *c08Env) ethFrom(h *c08Holder, to common.Address, value *big.Int, data []byte, gas uint64) (bool, bool) {
	n := e.n
	gp := []*big.Int{big.NewInt(1), big.NewInt(1_000_000_000), vn.HelperGasPrice}[e.rng.Intn(3)]
	res := n.Deliver(n.EthTx(h.acc, vn.EthArgs{Nonce: n.EthNonce(h.acc.Eth), To: &to, Value: value, Gas: gas, GasPrice: gp, Data: data}))
	er := vn.EthResult(res)
	return res.Code == 0, res.Code == 0 && len(er) == 1 && er[0].VmError == ""
}

func (e *c08Env) step(stPack, icsPack func(string, ...any) ([]byte, error)) {
	n, rng := e.n, e.rng
	h := e.holders[rng.Intn(len(e.holders))]
	d := h.denoms[rng.Intn(len(h.denoms))]
	val := n.Vals[rng.Intn(len(n.Vals))]
	before := e.balances()
	coin := func(x sdkmath.Int) sdk.Coins { return sdk.NewCoins(sdk.NewCoin(d, x)) }
	k := rng.Intn(100)
	if rng.Intn(25) == 0 {
		k = 56 // a validator can be created once per account: both routes get their share of first attempts
	}
	switch {
	case k < 8:
		x, cls := e.spendAmount(h, d, false)
		res := e.cosmos(h.acc, e.fee(), nil, banktypes.NewMsgSend(h.acc.Addr, e.sink.Addr, coin(x)))
		path := "bank-send"
		if d != vn.Denom {
			path = "bank-send-erc20-wrapper"
		}
		e.log("%s %s %s%s ok=%v", h.name, path, x, d, res.Code == 0)
		e.judge(path, "spend", h, before, res.Code == 0, cls)
	case k < 12:
		x, cls := e.spendAmount(h, d, false)
		res := e.cosmos(h.acc, e.fee(), nil, &banktypes.MsgMultiSend{Inputs: []banktypes.Input{{Address: h.acc.Addr.String(), Coins: coin(x)}}, Outputs: []banktypes.Output{{Address: e.sink.Addr.String(), Coins: coin(x)}}})
		e.log("%s multisend %s%s ok=%v", h.name, x, d, res.Code == 0)
		e.judge("bank-multisend", "spend", h, before, res.Code == 0, cls)
	case k < 19:
		x, cls := e.spendAmount(h, vn.Denom, false)
		to, path := e.sink.Eth, "eth-value-transfer"
		if rng.Intn(3) == 0 && e.sinkC != (common.Address{}) {
			to, path = e.sinkC, "eth-value-to-contract"
		}
		_, ok := e.ethFrom(h, to, x.BigInt(), nil, 100_000)
		e.log("%s %s %s ok=%v", h.name, path, x, ok)
		e.judge(path, "spend", h, before, ok, cls)
	case k < 23: // fee only: a Cosmos tx whose fee is the spend
		x, cls := e.spendAmount(h, vn.Denom, false)
		res := e.cosmos(h.acc, vn.CoinsI(x), nil, banktypes.NewMsgSend(h.acc.Addr, e.sink.Addr, sdk.NewCoins()))
		if res.Code != 0 && strings.Contains(res.Log, "invalid coins") {
			res = e.cosmos(h.acc, vn.CoinsI(x), nil, distrtypes.NewMsgSetWithdrawAddress(h.acc.Addr, h.acc.Addr))
		}
		e.log("%s cosmos fee %s ok=%v", h.name, x, res.Code == 0)
		e.judge("cosmos-fee", "spend", h, before, res.Code == 0, cls)
	case k < 27: // fee only: an Ethereum tx whose gas cost is the spend
		x, cls := e.spendAmount(h, vn.Denom, false)
		gas := uint64(21000)
		price := new(big.Int).Quo(x.BigInt(), big.NewInt(int64(gas)))
		if price.Sign() == 0 {
			price = big.NewInt(1)
		}
		to := e.sink.Eth
		res := n.Deliver(n.EthTx(h.acc, vn.EthArgs{Nonce: n.EthNonce(h.acc.Eth), To: &to, Value: big.NewInt(0), Gas: gas, GasPrice: price}))
		e.log("%s eth fee %s ok=%v", h.name, x, res.Code == 0)
		e.judge("eth-fee", "spend", h, before, res.Code == 0, cls)
	case k < 31: // fee grant: the grantee's fee comes out of the vesting account
		if !h.feeGrant {
			al, err := feegrant.NewMsgGrantAllowance(&feegrant.BasicAllowance{}, h.acc.Addr, e.grantee.Addr)
			vn.Must(err)
			res := e.cosmos(h.acc, sdk.NewCoins(), nil, al)
			h.feeGrant = res.Code == 0
			e.judge("feegrant-grant", "spend", h, before, res.Code == 0, "none")
			return
		}
		x, cls := e.spendAmount(h, vn.Denom, false)
		res := e.cosmos(e.grantee, vn.CoinsI(x), h.acc.Addr, banktypes.NewMsgSend(e.grantee.Addr, e.sink.Addr, vn.Coins(1)))
		e.log("grantee pays fee %s from %s ok=%v", x, h.name, res.Code == 0)
		e.judge("feegrant-fee", "spend", h, before, res.Code == 0, cls)
	case k < 36: // authz: a grantee sends on the holder's behalf
		if !h.sendGrant {
			exp := n.Time.Add(1000 * time.Hour)
			var a authz.Authorization = authz.NewGenericAuthorization(sdk.MsgTypeURL(&banktypes.MsgSend{}))
			if rng.Intn(2) == 0 {
				a = banktypes.NewSendAuthorization(sdk.NewCoins(sdk.NewCoin(vn.Denom, sdkmath.NewIntWithDecimal(1, 30)), sdk.NewCoin("utest", sdkmath.NewIntWithDecimal(1, 30))), nil)
			}
			g, err := authz.NewMsgGrant(h.acc.Addr, e.grantee.Addr, a, &exp)
			vn.Must(err)
			res := e.cosmos(h.acc, sdk.NewCoins(), nil, g)
			h.sendGrant = res.Code == 0
			e.judge("authz-grant", "spend", h, before, res.Code == 0, "none")
			return
		}
		x, cls := e.spendAmount(h, d, false)
		ex := authz.NewMsgExec(e.grantee.Addr, []sdk.Msg{banktypes.NewMsgSend(h.acc.Addr, e.sink.Addr, coin(x))})
		res := e.cosmos(e.grantee, sdk.NewCoins(), nil, &ex)
		e.log("grantee authz-send %s%s from %s ok=%v", x, d, h.name, res.Code == 0)
		e.judge("authz-exec-send", "spend", h, before, res.Code == 0, cls)
	case k < 44: // delegate by message
		x, cls := e.spendAmount(h, vn.Denom, true)
		res := e.cosmos(h.acc, e.fee(), nil, stakingtypes.NewMsgDelegate(h.acc.Addr, val.ValAddr, sdk.NewCoin(vn.Denom, x)))
		if res.Code == 0 {
			h.dRef = h.dRef.Add(x)
		}
		e.log("%s delegate %s ok=%v", h.name, x, res.Code == 0)
		e.judge("delegate-msg", "delegation", h, before, res.Code == 0, cls)
	case k < 49: // delegate through a grant
		if !h.stakeGrant {
			exp := n.Time.Add(1000 * time.Hour)
			var a authz.Authorization = authz.NewGenericAuthorization(sdk.MsgTypeURL(&stakingtypes.MsgDelegate{}))
			if rng.Intn(2) == 0 {
				var vals []sdk.ValAddress
				for _, v := range n.Vals {
					vals = append(vals, v.ValAddr)
				}
				sa, err := stakingtypes.NewStakeAuthorization(vals, nil, stakingtypes.AuthorizationType_AUTHORIZATION_TYPE_DELEGATE, nil)
				vn.Must(err)
				a = sa
			}
			g, err := authz.NewMsgGrant(h.acc.Addr, e.grantee.Addr, a, &exp)
			vn.Must(err)
			res := e.cosmos(h.acc, sdk.NewCoins(), nil, g)
			h.stakeGrant = res.Code == 0
			e.judge("authz-grant", "spend", h, before, res.Code == 0, "none")
			return
		}
		x, cls := e.spendAmount(h, vn.Denom, true)
		ex := authz.NewMsgExec(e.grantee.Addr, []sdk.Msg{stakingtypes.NewMsgDelegate(h.acc.Addr, val.ValAddr, sdk.NewCoin(vn.Denom, x))})
		res := e.cosmos(e.grantee, sdk.NewCoins(), nil, &ex)
		if res.Code == 0 {
			h.dRef = h.dRef.Add(x)
		}
		e.log("grantee authz-delegate %s for %s ok=%v", x, h.name, res.Code == 0)
		e.judge("delegate-authz-exec", "delegation", h, before, res.Code == 0, cls)
	case k < 56: // delegate through the staking precompile
		x, cls := e.spendAmount(h, vn.Denom, true)
		data, err := stPack("delegate", h.acc.Eth, val.ValAddr.String(), x.BigInt())
		vn.Must(err)
		_, ok := e.ethFrom(h, addrStaking, nil, data, 600_000)
		if ok {
			h.dRef = h.dRef.Add(x)
		}
		e.log("%s precompile delegate %s ok=%v", h.name, x, ok)
		e.judge("delegate-precompile", "delegation", h, before, ok, cls)
	case k < 58: // create a validator with a self-delegation
		x, cls := e.spendAmount(h, vn.Denom, true)
		pk := ed25519.GenPrivKeyFromSecret([]byte(fmt.Sprintf("c08val/%s/%s/%d", e.id, h.name, n.Height))).PubKey()
		msg, err := stakingtypes.NewMsgCreateValidator(sdk.ValAddress(h.acc.Addr), pk, sdk.NewCoin(vn.Denom, x), stakingtypes.Description{Moniker: "x"},
			stakingtypes.NewCommissionRates(sdk.NewDecWithPrec(1, 1), sdk.NewDecWithPrec(2, 1), sdk.NewDecWithPrec(1, 2)), sdkmath.OneInt())
		vn.Must(err)
		if e.rng.Intn(2) == 0 { // the same through the staking precompile
			data, err := stPack("createValidator", stakingpc.Description{Moniker: "x"},
				stakingpc.Commission{Rate: sdk.NewDecWithPrec(1, 1).BigInt(), MaxRate: sdk.NewDecWithPrec(2, 1).BigInt(), MaxChangeRate: sdk.NewDecWithPrec(1, 2).BigInt()},
				big.NewInt(1), h.acc.Eth, sdk.ValAddress(h.acc.Addr).String(), base64.StdEncoding.EncodeToString(pk.Bytes()), x.BigInt())
			vn.Must(err)
			_, ok := e.ethFrom(h, addrStaking, nil, data, 900_000)
			if ok {
				h.dRef = h.dRef.Add(x)
			}
			e.log("%s precompile createValidator %s ok=%v", h.name, x, ok)
			e.judge("create-validator-precompile", "delegation", h, before, ok, cls)
			return
		}
		res := e.cosmos(h.acc, sdk.NewCoins(), nil, msg)
		if res.Code == 0 {
			h.dRef = h.dRef.Add(x)
		}
		e.log("%s create-validator %s ok=%v", h.name, x, res.Code == 0)
		e.judge("create-validator", "delegation", h, before, res.Code == 0, cls)
	case k < 62: // ERC20 conversion of a vesting denom
		if len(h.denoms) < 2 {
			return
		}
		x, cls := e.spendAmount(h, "utest", false)
		res := e.cosmos(h.acc, sdk.NewCoins(), nil, erc20types.NewMsgConvertCoin(sdk.NewCoin("utest", x), e.sink.Eth, h.acc.Addr))
		e.log("%s convert-coin %sutest ok=%v", h.name, x, res.Code == 0)
		e.judge("erc20-convert-coin", "spend", h, before, res.Code == 0, cls)
	case k < 66:
		x, cls := e.spendAmount(h, vn.Denom, false)
		res := e.cosmos(h.acc, sdk.NewCoins(), nil, ucdaotypes.NewMsgFund(vn.CoinsI(x), h.acc.Addr))
		e.log("%s dao-fund %s ok=%v", h.name, x, res.Code == 0)
		e.judge("dao-fund", "spend", h, before, res.Code == 0, cls)
	case k < 70:
		x, cls := e.spendAmount(h, vn.Denom, false)
		msg, err := govv1beta1.NewMsgSubmitProposal(govv1beta1.NewTextProposal("t", "d"), vn.CoinsI(x), h.acc.Addr)
		vn.Must(err)
		res := e.cosmos(h.acc, sdk.NewCoins(), nil, msg)
		e.log("%s gov-deposit %s ok=%v", h.name, x, res.Code == 0)
		e.judge("gov-deposit", "spend", h, before, res.Code == 0, cls)
	case k < 73:
		x, cls := e.spendAmount(h, vn.Denom, false)
		res := e.cosmos(h.acc, sdk.NewCoins(), nil, distrtypes.NewMsgFundCommunityPool(vn.CoinsI(x), h.acc.Addr))
		e.log("%s community-pool %s ok=%v", h.name, x, res.Code == 0)
		e.judge("community-pool", "spend", h, before, res.Code == 0, cls)
	case k < 78: // IBC transfer (loopback channel)
		if e.lb == nil {
			return
		}
		x, cls := e.spendAmount(h, d, false)
		msg := transfertypes.NewMsgTransfer("transfer", e.lb.A, sdk.NewCoin(d, x), h.acc.Addr.String(), e.sink.Addr.String(), clienttypes.NewHeight(1, 1_000_000), 0, "")
		res := e.cosmos(h.acc, sdk.NewCoins(), nil, msg)
		e.log("%s ibc-transfer %s%s ok=%v", h.name, x, d, res.Code == 0)
		e.judge("ibc-transfer-msg", "spend", h, before, res.Code == 0, cls)
	case k < 82: // ICS-20 precompile
		if e.lb == nil {
			return
		}
		x, cls := e.spendAmount(h, vn.Denom, false)
		data, err := icsPack("transfer", "transfer", e.lb.A, vn.Denom, x.BigInt(), h.acc.Eth, e.sink.Addr.String(), clienttypes.NewHeight(1, 1_000_000), uint64(0), "")
		vn.Must(err)
		_, ok := e.ethFrom(h, addrICS20, nil, data, 800_000)
		e.log("%s ics20-precompile transfer %s ok=%v", h.name, x, ok)
		e.judge("ibc-transfer-precompile", "spend", h, before, ok, cls)
	case k < 85: // the holder funds another vesting account
		x, cls := e.spendAmount(h, vn.Denom, false)
		to := vn.DetAccount(uint64(e.r.Seed), "c08sub/"+e.id, int(n.Height))
		ps := sdkvesting.Periods{{Length: 100, Amount: vn.CoinsI(x)}}
		res := e.cosmos(h.acc, sdk.NewCoins(), nil, vestingtypes.NewMsgCreateClawbackVestingAccount(h.acc.Addr, to.Addr, n.Time.UTC(), ps, ps, false))
		e.log("%s funds a vesting account with %s ok=%v", h.name, x, res.Code == 0)
		e.judge("fund-vesting-account", "spend", h, before, res.Code == 0, cls)
	case k < 90: // undelegate / redelegate (no debit; interleaving)
		dels := n.App.StakingKeeper.GetDelegatorDelegations(n.Ctx(), h.acc.Addr, 10)
		if len(dels) == 0 {
			return
		}
		dl := dels[rng.Intn(len(dels))]
		v, _ := n.App.StakingKeeper.GetValidator(n.Ctx(), dl.GetValidatorAddr())
		tok := v.TokensFromShares(dl.Shares).TruncateInt()
		if !tok.IsPositive() {
			return
		}
		x := sdkmath.NewIntFromBigInt(new(big.Int).Rand(rng, tok.BigInt())).AddRaw(1)
		var res abci.ResponseDeliverTx
		if rng.Intn(3) == 0 {
			dst := n.Vals[rng.Intn(len(n.Vals))].ValAddr
			res = e.cosmos(h.acc, sdk.NewCoins(), nil, stakingtypes.NewMsgBeginRedelegate(h.acc.Addr, dl.GetValidatorAddr(), dst, sdk.NewCoin(vn.Denom, x)))
			e.log("%s redelegate %s ok=%v", h.name, x, res.Code == 0)
		} else {
			res = e.cosmos(h.acc, sdk.NewCoins(), nil, stakingtypes.NewMsgUndelegate(h.acc.Addr, dl.GetValidatorAddr(), sdk.NewCoin(vn.Denom, x)))
			e.log("%s undelegate %s ok=%v", h.name, x, res.Code == 0)
		}
		e.r.Count("undelegate_or_redelegate", 1)
		e.judge("undelegate/redelegate", "credit", h, before, res.Code == 0, "none")
	case k < 93: // a validator double-signs: delegations are slashed
		vi := 1 + rng.Intn(len(n.Vals)-1)
		if v, found := n.App.StakingKeeper.GetValidator(n.Ctx(), n.Vals[vi].ValAddr); found && !v.IsUnbonded() && n.Height > 3 {
			ev := n.DoubleSignEvidence(vi, n.Height-1, n.Time.Add(-time.Second))
			e.nextBlockWithEvidence(ev)
			e.r.Count("slashing_events", 1)
			e.log("validator %d double-signed", vi)
		}
	case k < 94: // the funder merges another grant through MsgConvertIntoVestingAccount with the stake option: the vested part is delegated at once
		total := map[string]sdkmath.Int{vn.Denom: sdkmath.NewIntWithDecimal(int64(10+rng.Intn(200)), 18)}
		lock := c08Periods(rng, []string{vn.Denom}, total, 3, 1)
		vest := c08Periods(rng, []string{vn.Denom}, total, 3, 1)
		st := n.Time.Unix() - int64(rng.Intn(400)) - 1
		res := e.cosmos(e.funder, sdk.NewCoins(), nil, vestingtypes.NewMsgConvertIntoVestingAccount(e.funder.Addr, h.acc.Addr, time.Unix(st, 0).UTC(), lock, vest, true, true, val.ValAddr))
		if res.Code == 0 {
			h.dRef = n.App.StakingKeeper.GetDelegatorBonded(n.Ctx(), h.acc.Addr).Add(n.App.StakingKeeper.GetDelegatorUnbonding(n.Ctx(), h.acc.Addr))
			e.r.Count("grants_merged_with_stake", 1)
		}
		e.log("funder merges a grant with the stake option into %s start=%d lockup=%s vesting=%s ok=%v", h.name, st, periodsStr(lock), periodsStr(vest), res.Code == 0)
		e.judge("merge-grant-with-stake", "delegation", h, before, res.Code == 0, "none")
	case k < 96: // the funder merges another grant
		total := map[string]sdkmath.Int{vn.Denom: sdkmath.NewIntWithDecimal(int64(10+rng.Intn(200)), 18)}
		lock := c08Periods(rng, []string{vn.Denom}, total, 3, 1)
		vest := c08Periods(rng, []string{vn.Denom}, total, 3, 1)
		st := n.Time.Unix() + int64(rng.Intn(300)) - 150
		res := e.cosmos(e.funder, sdk.NewCoins(), nil, vestingtypes.NewMsgCreateClawbackVestingAccount(e.funder.Addr, h.acc.Addr, time.Unix(st, 0).UTC(), lock, vest, true))
		if res.Code == 0 {
			// the module re-bases its tracking on what is really delegated
			h.dRef = n.App.StakingKeeper.GetDelegatorBonded(n.Ctx(), h.acc.Addr).Add(n.App.StakingKeeper.GetDelegatorUnbonding(n.Ctx(), h.acc.Addr))
			e.r.Count("grants_merged", 1)
		}
		e.log("funder merges a grant into %s start=%d lockup=%s vesting=%s ok=%v", h.name, st, periodsStr(lock), periodsStr(vest), res.Code == 0)
		e.judge("merge-grant", "credit", nil, before, res.Code == 0, "none")
	default: // the funder claws back
		if rng.Intn(2) == 0 {
			return
		}
		res := e.cosmos(e.funder, sdk.NewCoins(), nil, vestingtypes.NewMsgClawback(e.funder.Addr, h.acc.Addr, e.funder.Addr))
		if res.Code == 0 {
			e.r.Count("clawbacks", 1)
		}
		e.log("funder claws back from %s ok=%v", h.name, res.Code == 0)
		e.judge("clawback", "clawback", nil, before, res.Code == 0, "none")
	}
}

func (e *c08Env) nextBlockWithEvidence(ev abci.Misbehavior) {
	e.nextBlockOpts(vn.BlockOpts{Dt: 2 * time.Second, Evidence: []abci.Misbehavior{ev}})
}
