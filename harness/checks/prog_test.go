//go:build verif

package checks

import (
	"fmt"
	"math/big"
	"math/rand"

	"github.com/ethereum/go-ethereum/common"

	"verif/harness/evmasm"
	"verif/harness/vn"
)

// pnode is one contract frame of a generated precompile-free program.
type pnode struct {
	pre    []evmasm.Step // constructor steps (pre-set storage that the runtime clears for refunds)
	steps  []evmasm.Step // filled at deploy time
	plan   []pstep
	end    string // "", "revert", "invalid", "burn"
	addr   common.Address
	fund   *big.Int
	sdTo   common.Address
	sdSelf bool
}

// genPokes adds plain value transfers to a called child before/after the call (the same
// contract then has changes both inside and outside a possibly failing frame).
var genPokes = false

// genSelfDestruct enables SELFDESTRUCT frame endings (used by the C05 program family).
var genSelfDestruct = false

// genCreates adds CREATE steps (a small contract with one storage slot, funded with a few wei): the
// creator's nonce and balance then change inside frames that may fail.
var genCreates = false

// genPcQueries, when non-empty, sprinkles read-only calls of stateful precompiles over the
// frames (each such call makes the StateDB flush into the store in the middle of the
// transaction). Gas then differs from a chain without those precompiles, so in this mode no
// frame gets a gas limit and no frame ends by consuming all its gas.
var genPcQueries []pcQuery

type pcQuery struct {
	to   common.Address
	data []byte
	tx   bool // a precompile transaction (Cosmos-side effect), made with CALL instead of STATICCALL
}

type pstep struct {
	kind  string // sstore-set | sstore-clear | log | send-eoa | send-fresh | call | burn
	slot  uint64
	val   *big.Int
	call  evmasm.CallKind
	gas   uint64
	fail  evmasm.OnFail
	child *pnode
	to    common.Address
	data  []byte
	// value transfers (empty calldata: the child only receives) to the same child before / after the call
	pokeBefore, pokeAfter *big.Int
	pokeTarget            *pnode // a descendant of child (nil = the child itself)
}

func (p *pnode) shape() string {
	s := "{"
	for _, st := range p.plan {
		switch st.kind {
		case "call":
			g := ""
			if st.gas > 0 {
				g = fmt.Sprintf("/gas%d", st.gas)
			}
			f := ""
			if st.fail == evmasm.Bubble {
				f = "!"
			}
			pk := ""
			if st.pokeBefore != nil {
				pk += "$<"
			}
			if st.pokeAfter != nil {
				pk += "$>"
			}
			s += fmt.Sprintf("%s%s%s%s%s ", pk, st.call, g, f, st.child.shape())
		default:
			s += st.kind + " "
		}
	}
	if p.end != "" {
		s += "→" + p.end
	}
	return s + "}"
}

// genProg generates a program tree. eoas are possible value recipients; fresh yields
// never-seen addresses.
func genProg(rng *rand.Rand, depth int, eoas []common.Address, fresh func() common.Address) *pnode {
	p := &pnode{fund: big.NewInt(int64(rng.Intn(5000) + 1000))}
	nsteps := 1 + rng.Intn(4)
	slot := uint64(0)
	for i := 0; i < nsteps; i++ {
		if genCreates && rng.Intn(5) == 0 {
			p.plan = append(p.plan, pstep{kind: "create", val: big.NewInt(int64(rng.Intn(20)))})
		}
		if len(genPcQueries) > 0 && rng.Intn(3) == 0 {
			q := genPcQueries[rng.Intn(len(genPcQueries))]
			kind := "pcquery"
			if q.tx {
				kind = "pctx"
			}
			p.plan = append(p.plan, pstep{kind: kind, to: q.to, data: q.data})
		}
		switch k := rng.Intn(9); {
		case k == 0:
			slot++
			p.plan = append(p.plan, pstep{kind: "sstore-set", slot: 100 + slot, val: big.NewInt(7)})
		case k == 1:
			slot++
			p.pre = append(p.pre, evmasm.SStore{Slot: slot, Val: 5})
			p.plan = append(p.plan, pstep{kind: "sstore-clear", slot: slot})
		case k == 2:
			p.plan = append(p.plan, pstep{kind: "log"})
		case k == 3:
			p.plan = append(p.plan, pstep{kind: "send-eoa", to: eoas[rng.Intn(len(eoas))], val: big.NewInt(int64(rng.Intn(50) + 1))})
		case k == 4:
			p.plan = append(p.plan, pstep{kind: "send-fresh", to: fresh(), val: big.NewInt(int64(rng.Intn(50)))})
		case k >= 5 && depth > 1:
			st := pstep{kind: "call", call: evmasm.CallKind(rng.Intn(4)), child: genProg(rng, depth-1, eoas, fresh), fail: evmasm.OnFail(rng.Intn(2))}
			if len(genPcQueries) > 0 && st.call == evmasm.StaticCall {
				// a write inside a static frame burns all the gas the frame was given; what is left
				// afterwards is so little that the different price of the precompile calls decides
				// which later step runs out of gas
				st.call = evmasm.Call
			}
			if st.call == evmasm.Call || st.call == evmasm.CallCode {
				st.val = big.NewInt(int64(rng.Intn(30)))
			}
			if rng.Intn(4) == 0 && len(genPcQueries) == 0 {
				st.gas = uint64(2000 + rng.Intn(60000))
			}
			if genPokes && rng.Intn(3) == 0 {
				st.pokeBefore = big.NewInt(int64(rng.Intn(9) + 1))
			}
			if genPokes && rng.Intn(3) == 0 {
				st.pokeAfter = big.NewInt(int64(rng.Intn(9) + 1))
			}
			if genPokes {
				if ds := st.child.descendants(); len(ds) > 0 && rng.Intn(2) == 0 {
					st.pokeTarget = ds[rng.Intn(len(ds))]
				}
			}
			p.plan = append(p.plan, st)
		default:
			p.plan = append(p.plan, pstep{kind: "log"})
		}
	}
	// call an already-called (hence warm) child once more, without value: between a preceding
	// precompile call and the child's first action nothing is journaled then
	if genCreates || len(genPcQueries) > 0 {
		var called []*pnode
		for _, st := range p.plan {
			if st.kind == "call" && (st.call == evmasm.Call || st.call == evmasm.DelegateCall) {
				called = append(called, st.child)
			}
		}
		if len(called) > 0 && rng.Intn(3) == 0 {
			child := called[rng.Intn(len(called))]
			if len(genPcQueries) > 0 && rng.Intn(2) == 0 {
				// a precompile call right before, preferably a query; and the child begins with a precompile call too
				var qs, txs []pcQuery
				for _, q := range genPcQueries {
					if q.tx {
						txs = append(txs, q)
					} else {
						qs = append(qs, q)
					}
				}
				pick := genPcQueries[rng.Intn(len(genPcQueries))]
				if len(qs) > 0 && rng.Intn(3) > 0 {
					pick = qs[rng.Intn(len(qs))]
				}
				kind := "pcquery"
				if pick.tx {
					kind = "pctx"
				}
				p.plan = append(p.plan, pstep{kind: kind, to: pick.to, data: pick.data})
				if rng.Intn(2) == 0 {
					first := genPcQueries[rng.Intn(len(genPcQueries))]
					if len(txs) > 0 && rng.Intn(3) > 0 {
						first = txs[rng.Intn(len(txs))]
					}
					fk := "pcquery"
					if first.tx {
						fk = "pctx"
					}
					child.plan = append([]pstep{{kind: fk, to: first.to, data: first.data}}, child.plan...)
				}
			}
			p.plan = append(p.plan, pstep{kind: "recall", child: child, fail: evmasm.OnFail(rng.Intn(2))})
		}
	}
	endPick := rng.Intn(9)
	if genSelfDestruct { // the failing-frame family: more reverts and self-destructs
		endPick = []int{0, 0, 1, 2, 3, 3, 3, 8, 8, 8}[rng.Intn(10)]
	}
	if len(genPcQueries) > 0 {
		endPick = []int{0, 0, 0, 3, 3, 8, 8, 8}[rng.Intn(8)] // revert / self-destruct / plain return only
	}
	switch endPick {
	case 0:
		p.end = "revert"
	case 1:
		p.end = "invalid"
	case 2:
		p.end = "burn"
	case 3:
		if genSelfDestruct {
			p.end = "selfdestruct"
			p.sdTo = eoas[rng.Intn(len(eoas))]
			if rng.Intn(3) == 0 {
				p.sdTo = common.Address{} // filled with the contract's own address at deploy time
				p.sdSelf = true
			}
		}
	}
	return p
}

// deployProg deploys the tree bottom-up and returns all contract addresses.
func deployProg(n *vn.Node, from vn.Account, p *pnode) ([]common.Address, error) {
	var all []common.Address
	for i := range p.plan {
		if p.plan[i].kind == "call" {
			sub, err := deployProg(n, from, p.plan[i].child)
			if err != nil {
				return nil, err
			}
			all = append(all, sub...)
		}
	}
	p.steps = []evmasm.Step{evmasm.Guard{}}
	for _, st := range p.plan {
		switch st.kind {
		case "sstore-set":
			p.steps = append(p.steps, evmasm.SStore{Slot: st.slot, Val: 7})
		case "sstore-clear":
			p.steps = append(p.steps, evmasm.SStore{Slot: st.slot, Val: 0})
		case "log":
			p.steps = append(p.steps, evmasm.Log{Topic: 42})
		case "recall":
			p.steps = append(p.steps, evmasm.CallStep{Kind: evmasm.Call, To: st.child.addr, Fail: st.fail, Data: []byte{1}})
		case "create":
			p.steps = append(p.steps, evmasm.Create{Init: evmasm.InitCode([]evmasm.Step{evmasm.SStore{Slot: 1, Val: 1}}, []evmasm.Step{evmasm.Stop{}}), Value: st.val, Fail: evmasm.Ignore})
		case "pctx":
			p.steps = append(p.steps, evmasm.CallStep{Kind: evmasm.Call, To: st.to, Data: st.data, Fail: evmasm.Ignore})
		case "pcquery":
			p.steps = append(p.steps, evmasm.CallStep{Kind: evmasm.StaticCall, To: st.to, Data: st.data, Fail: evmasm.Ignore})
		case "send-eoa", "send-fresh":
			p.steps = append(p.steps, evmasm.CallStep{Kind: evmasm.Call, To: st.to, Value: st.val, Fail: evmasm.Ignore})
		case "call":
			pt := st.child
			if st.pokeTarget != nil {
				pt = st.pokeTarget
			}
			if st.pokeBefore != nil {
				p.steps = append(p.steps, evmasm.CallStep{Kind: evmasm.Call, To: pt.addr, Value: st.pokeBefore, Fail: evmasm.Ignore})
			}
			p.steps = append(p.steps, evmasm.CallStep{Kind: st.call, To: st.child.addr, Value: st.val, Gas: st.gas, Fail: st.fail, Data: []byte{1}})
			if st.pokeAfter != nil {
				p.steps = append(p.steps, evmasm.CallStep{Kind: evmasm.Call, To: pt.addr, Value: st.pokeAfter, Fail: evmasm.Ignore})
			}
		}
	}
	switch p.end {
	case "revert":
		p.steps = append(p.steps, evmasm.Revert{})
	case "invalid":
		p.steps = append(p.steps, evmasm.Invalid{})
	case "burn":
		p.steps = append(p.steps, evmasm.BurnGas{Loops: 1 << 40})
	case "selfdestruct":
		to := p.sdTo
		if p.sdSelf {
			to = vn.CreateAddress(from.Eth, n.EthNonce(from.Eth))
		}
		p.steps = append(p.steps, evmasm.SelfDestruct{To: to})
	}
	addr, res := n.Deploy(from, evmasm.InitCode(p.pre, p.steps), p.fund)
	if res.Code != 0 {
		return nil, fmt.Errorf("deploy failed: %s", res.Log)
	}
	if er := vn.EthResult(res); len(er) != 1 || er[0].VmError != "" {
		return nil, fmt.Errorf("deploy vm error")
	}
	p.addr = addr
	return append(all, addr), nil
}

func (p *pnode) targets() []common.Address {
	var out []common.Address
	if p.end == "selfdestruct" && !p.sdSelf {
		out = append(out, p.sdTo) // the beneficiary must be part of the mirrored pre-state
	}
	for _, st := range p.plan {
		switch st.kind {
		case "send-eoa", "send-fresh":
			out = append(out, st.to)
		case "call":
			out = append(out, st.child.targets()...)
		}
	}
	return out
}

// addrMap lists every contract of the tree with its own (non-recursive) plan.
func (p *pnode) addrMap() map[string]string {
	out := map[string]string{}
	var walk func(q *pnode, path string)
	walk = func(q *pnode, path string) {
		s := ""
		for _, st := range q.plan {
			if st.kind == "call" {
				s += fmt.Sprintf("%s->%s ", st.call, st.child.addr.Hex()[:8])
			} else {
				s += st.kind + " "
			}
		}
		out[q.addr.Hex()] = path + ": " + s + "end=" + q.end
		i := 0
		for _, st := range q.plan {
			if st.kind == "call" {
				walk(st.child, fmt.Sprintf("%s.%d", path, i))
				i++
			}
		}
	}
	walk(p, "root")
	return out
}

func (p *pnode) descendants() []*pnode {
	var out []*pnode
	for _, st := range p.plan {
		if st.kind == "call" {
			out = append(out, st.child)
			out = append(out, st.child.descendants()...)
		}
	}
	return out
}
