//go:build verif

package checks

import (
	"fmt"
	"math/big"
	"math/rand"

	"github.com/ethereum/go-ethereum/common"

	"verif/harness/evmasm"
	"verif/harness/vn"
)

// pnode is one contract frame of a generated precompile-free program.
type pnode struct {
	pre   []evmasm.Step // constructor steps (pre-set storage that the runtime clears for refunds)
	steps []evmasm.Step // filled at deploy time
	plan  []pstep
	end   string // "", "revert", "invalid", "burn"
	addr  common.Address
	fund  *big.Int
}

type pstep struct {
	kind  string // sstore-set | sstore-clear | log | send-eoa | send-fresh | call | burn
	slot  uint64
	val   *big.Int
	call  evmasm.CallKind
	gas   uint64
	fail  evmasm.OnFail
	child *pnode
	to    common.Address
}

func (p *pnode) shape() string {
	s := "{"
	for _, st := range p.plan {
		switch st.kind {
		case "call":
			g := ""
			if st.gas > 0 {
				g = fmt.Sprintf("/gas%d", st.gas)
			}
			f := ""
			if st.fail == evmasm.Bubble {
				f = "!"
			}
			s += fmt.Sprintf("%s%s%s%s ", st.call, g, f, st.child.shape())
		default:
			s += st.kind + " "
		}
	}
	if p.end != "" {
		s += "→" + p.end
	}
	return s + "}"
}

// genProg generates a program tree. eoas are possible value recipients; fresh yields
// never-seen addresses.
func genProg(rng *rand.Rand, depth int, eoas []common.Address, fresh func() common.Address) *pnode {
	p := &pnode{fund: big.NewInt(int64(rng.Intn(5000) + 1000))}
	nsteps := 1 + rng.Intn(4)
	slot := uint64(0)
	for i := 0; i < nsteps; i++ {
		switch k := rng.Intn(9); {
		case k == 0:
			slot++
			p.plan = append(p.plan, pstep{kind: "sstore-set", slot: 100 + slot, val: big.NewInt(7)})
		case k == 1:
			slot++
			p.pre = append(p.pre, evmasm.SStore{Slot: slot, Val: 5})
			p.plan = append(p.plan, pstep{kind: "sstore-clear", slot: slot})
		case k == 2:
			p.plan = append(p.plan, pstep{kind: "log"})
		case k == 3:
			p.plan = append(p.plan, pstep{kind: "send-eoa", to: eoas[rng.Intn(len(eoas))], val: big.NewInt(int64(rng.Intn(50) + 1))})
		case k == 4:
			p.plan = append(p.plan, pstep{kind: "send-fresh", to: fresh(), val: big.NewInt(int64(rng.Intn(50)))})
		case k >= 5 && depth > 1:
			st := pstep{kind: "call", call: evmasm.CallKind(rng.Intn(4)), child: genProg(rng, depth-1, eoas, fresh), fail: evmasm.OnFail(rng.Intn(2))}
			if st.call == evmasm.Call || st.call == evmasm.CallCode {
				st.val = big.NewInt(int64(rng.Intn(30)))
			}
			if rng.Intn(4) == 0 {
				st.gas = uint64(2000 + rng.Intn(60000))
			}
			p.plan = append(p.plan, st)
		default:
			p.plan = append(p.plan, pstep{kind: "log"})
		}
	}
	switch rng.Intn(8) {
	case 0:
		p.end = "revert"
	case 1:
		p.end = "invalid"
	case 2:
		p.end = "burn"
	}
	return p
}

// deployProg deploys the tree bottom-up and returns all contract addresses.
func deployProg(n *vn.Node, from vn.Account, p *pnode) ([]common.Address, error) {
	var all []common.Address
	for i := range p.plan {
		if p.plan[i].kind == "call" {
			sub, err := deployProg(n, from, p.plan[i].child)
			if err != nil {
				return nil, err
			}
			all = append(all, sub...)
		}
	}
	p.steps = nil
	for _, st := range p.plan {
		switch st.kind {
		case "sstore-set":
			p.steps = append(p.steps, evmasm.SStore{Slot: st.slot, Val: 7})
		case "sstore-clear":
			p.steps = append(p.steps, evmasm.SStore{Slot: st.slot, Val: 0})
		case "log":
			p.steps = append(p.steps, evmasm.Log{Topic: 42})
		case "send-eoa", "send-fresh":
			p.steps = append(p.steps, evmasm.CallStep{Kind: evmasm.Call, To: st.to, Value: st.val, Fail: evmasm.Ignore})
		case "call":
			p.steps = append(p.steps, evmasm.CallStep{Kind: st.call, To: st.child.addr, Value: st.val, Gas: st.gas, Fail: st.fail})
		}
	}
	switch p.end {
	case "revert":
		p.steps = append(p.steps, evmasm.Revert{})
	case "invalid":
		p.steps = append(p.steps, evmasm.Invalid{})
	case "burn":
		p.steps = append(p.steps, evmasm.BurnGas{Loops: 1 << 40})
	}
	addr, res := n.Deploy(from, evmasm.InitCode(p.pre, p.steps), p.fund)
	if res.Code != 0 {
		return nil, fmt.Errorf("deploy failed: %s", res.Log)
	}
	if er := vn.EthResult(res); len(er) != 1 || er[0].VmError != "" {
		return nil, fmt.Errorf("deploy vm error")
	}
	p.addr = addr
	return append(all, addr), nil
}

func (p *pnode) targets() []common.Address {
	var out []common.Address
	for _, st := range p.plan {
		switch st.kind {
		case "send-eoa", "send-fresh":
			out = append(out, st.to)
		case "call":
			out = append(out, st.child.targets()...)
		}
	}
	return out
}
