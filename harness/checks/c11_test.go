//go:build verif

package checks

import (
	"fmt"
	"math/big"
	"math/rand"
	"sort"
	"strings"
	"testing"
	"time"

	sdkmath "cosmossdk.io/math"
	"github.com/cosmos/cosmos-sdk/codec"
	sdk "github.com/cosmos/cosmos-sdk/types"
	sdkvesting "github.com/cosmos/cosmos-sdk/x/auth/vesting/types"
	"github.com/ethereum/go-ethereum/common"

	haqqtypes "github.com/haqq-network/haqq/types"
	lvtypes "github.com/haqq-network/haqq/x/liquidvesting/types"
	vestingtypes "github.com/haqq-network/haqq/x/vesting/types"

	"verif/harness/report"
	"verif/harness/vn"
)

func TestC11(t *testing.T) {
	r := report.Start("C11")
	defer r.Finish()
	np := r.Cases(40000, 1000000)
	for i := 0; i < np; i++ {
		if i%r.NShards != r.Shard.Shard && !r.Replaying() {
			continue
		}
		id := fmt.Sprintf("split/%d", i)
		if r.Replaying() && r.ReplayCase() != id {
			continue
		}
		c11Split(r, id)
	}
	nh := r.Cases(256, 9600)
	for i := 0; i < nh; i++ {
		id := fmt.Sprintf("hist/%d", i)
		if !r.Want(id, i) {
			continue
		}
		c11History(r, id)
	}
}

// c11Split: SubtractAmountFromPeriods splits every period exactly.
func c11Split(r *report.R, id string) {
	rng := r.Rand(id)
	r.Eval(1)
	ps, sh := genPeriods(rng, 12, []string{"aISLM", "uatom"})
	total := ps.TotalAmount().AmountOf("aISLM")
	if total.IsZero() {
		ps[0].Amount = ps[0].Amount.Add(sdk.NewCoin("aISLM", sdkmath.NewInt(int64(rng.Intn(1000)+1))))
		total = ps.TotalAmount().AmountOf("aISLM")
	}
	var amt sdkmath.Int
	acls := ""
	switch rng.Intn(6) {
	case 0:
		amt, acls = total, "all"
	case 1:
		amt, acls = sdkmath.OneInt(), "one"
	case 2:
		amt, acls = total.SubRaw(1), "allbut1"
		if !amt.IsPositive() {
			amt, acls = total, "all"
		}
	case 3:
		amt, acls = total.AddRaw(1), "over"
	default:
		amt, acls = sdkmath.NewIntFromBigInt(new(big.Int).Rand(rng, total.BigInt())).AddRaw(1), "part"
		if amt.GT(total) {
			amt = total
		}
	}
	orig := clonePeriods(ps)
	dec, diff, err := lvtypes.SubtractAmountFromPeriods(ps, sdk.NewCoin("aISLM", amt))
	desc := fmt.Sprintf("amount=%s periods=%s -> left=%s moved=%s", amt, periodsStr(orig), periodsStr(dec), periodsStr(diff))
	if acls == "over" {
		if err == nil {
			r.Violation(id, "split|over-total-accepted", desc, nil)
		} else {
			r.Nontriv("split|over|rejected")
		}
		return
	}
	if err != nil {
		r.Violation(id, "split|error-on-valid-amount", err.Error()+" "+desc, nil)
		return
	}
	if len(dec) != len(orig) || len(diff) != len(orig) {
		r.Violation(id, "split|period-count", desc, nil)
		return
	}
	moved := sdkmath.ZeroInt()
	for i := range orig {
		if dec[i].Length != orig[i].Length || diff[i].Length != orig[i].Length {
			r.Violation(id, "split|length-changed", desc, nil)
			return
		}
		if dec[i].Amount.IsAnyNegative() || diff[i].Amount.IsAnyNegative() {
			r.Violation(id, "split|negative-part", desc, nil)
			return
		}
		if !mapEq(addMap(coinsMap(dec[i].Amount), coinsMap(diff[i].Amount)), coinsMap(orig[i].Amount)) {
			r.Violation(id, "split|left+moved≠original", fmt.Sprintf("period %d: %s + %s ≠ %s; %s", i, dec[i].Amount, diff[i].Amount, orig[i].Amount, desc), nil)
			return
		}
		if !diff[i].Amount.AmountOf("uatom").IsZero() {
			r.Violation(id, "split|other-denom-moved", desc, nil)
			return
		}
		moved = moved.Add(diff[i].Amount.AmountOf("aISLM"))
	}
	if !moved.Equal(amt) {
		r.Violation(id, "split|Σmoved≠amount", fmt.Sprintf("moved %s; %s", moved, desc), nil)
		return
	}
	// the input must not have been mutated
	for i := range orig {
		if !mapEq(coinsMap(ps[i].Amount), coinsMap(orig[i].Amount)) {
			r.Violation(id, "split|input-mutated", desc, nil)
			return
		}
	}
	r.Count("split_checks", 1)
	r.Nontriv("split|" + sh.String() + "|" + acls)
	r.Sample("split", desc)
}

// ---- histories --------------------------------------------------------------

func erc20TransferData(to common.Address, amt *big.Int) []byte {
	d := common.FromHex("0xa9059cbb")
	d = append(d, common.LeftPadBytes(to.Bytes(), 32)...)
	d = append(d, common.LeftPadBytes(amt.Bytes(), 32)...)
	return d
}

type lvParty struct {
	name string
	acc  vn.Account
}

func c11History(r *report.R, id string) {
	rng := r.Rand(id)
	cfg := vn.Config{Seed: uint64(r.Seed), NumVals: 1, NumAccounts: 5}
	cfg.Mutate = func(cdc codec.Codec, gs haqqtypes.GenesisState) {
		g := lvtypes.DefaultGenesisState()
		g.Params.MinimumLiquidationAmount = sdkmath.NewInt(1000)
		gs[lvtypes.ModuleName] = cdc.MustMarshalJSON(g)
	}
	n := vn.New(cfg)
	funder := n.Accounts[0]
	plain := n.Accounts[1]
	V := vn.DetAccount(uint64(r.Seed), "lv-vest", rng.Intn(1_000_000))
	V2 := vn.DetAccount(uint64(r.Seed), "lv-vest2", rng.Intn(1_000_000))
	H2 := n.Accounts[2]
	fresh := vn.DetAccount(uint64(r.Seed), "lv-fresh", rng.Intn(1_000_000))
	modAddr := vn.ModuleAddr(lvtypes.ModuleName)
	// fee = gas × 1: the effective fee is floor(fee/gas)×gas, so this is charged in full
	fee := sdk.NewCoins(sdk.NewCoin(vn.Denom, sdkmath.NewInt(8_000_000)))
	var trace []string
	now := func() int64 { return n.Time.Unix() }
	deliver := func(signer vn.Account, msgs ...sdk.Msg) (bool, string) {
		res := n.Deliver(n.CosmosTx(vn.CosmosArgs{Msgs: msgs, Gas: 8_000_000, Fee: fee}, signer))
		return res.Code == 0, res.Log
	}
	getVA := func(a sdk.AccAddress) *vestingtypes.ClawbackVestingAccount {
		va, _ := n.App.AccountKeeper.GetAccount(n.Ctx(), a).(*vestingtypes.ClawbackVestingAccount)
		return va
	}
	// locked(t) of an account under the reference reading of its stored lockup schedule
	lockedAt := func(va *vestingtypes.ClawbackVestingAccount, t int64) sdkmath.Int {
		if va == nil {
			return sdkmath.ZeroInt()
		}
		orig := va.OriginalVesting.AmountOf(vn.Denom)
		un := refRead(va.GetStartTime(), va.LockupPeriods, t)[vn.Denom]
		if t >= va.EndTime && t > va.GetStartTime() {
			un = orig
		}
		if un.IsNil() {
			un = sdkmath.ZeroInt()
		}
		return orig.Sub(un)
	}
	genLock := func(maxLen int) sdkvesting.Periods {
		k := 1 + rng.Intn(12)
		var ps sdkvesting.Periods
		for i := 0; i < k; i++ {
			l := int64(rng.Intn(maxLen) + 1)
			var a sdkmath.Int
			switch rng.Intn(3) {
			case 0:
				a = sdkmath.NewInt(int64(rng.Intn(5000) + 1))
			case 1:
				a = sdkmath.NewIntWithDecimal(int64(rng.Intn(900)+1), 18)
			default:
				a = sdkmath.NewInt(rng.Int63n(1_000_000_000_000) + 1000)
			}
			ps = append(ps, sdkvesting.Period{Length: l, Amount: sdk.NewCoins(sdk.NewCoin(vn.Denom, a))})
		}
		return ps
	}
	n.BeginBlock(vn.BlockOpts{})
	defer func() {
		if n.InBlock {
			n.EndBlock()
			n.Commit()
		}
		r.Sample("history", map[string]any{"id": id, "trace": trace})
	}()
	// two vesting accounts: V (liquidation source) and V2 (possible redeem target, different start)
	lockV := genLock(3000)
	startV := now() - int64(rng.Intn(2000))
	if ok, log := deliver(funder, vestingtypes.NewMsgCreateClawbackVestingAccount(funder.Addr, V.Addr, time.Unix(startV, 0).UTC(), lockV, nil, false)); !ok {
		r.Note("create V rejected: %.120s", log)
		return
	}
	lockV2 := genLock(3000)
	startV2 := now() - 5000 + int64(rng.Intn(12000))
	if startV2 <= 0 {
		startV2 = 1
	}
	if ok, log := deliver(funder, vestingtypes.NewMsgCreateClawbackVestingAccount(funder.Addr, V2.Addr, time.Unix(startV2, 0).UTC(), lockV2, nil, false)); !ok {
		r.Note("create V2 rejected: %.120s", log)
		return
	}
	// gas money for the vesting accounts (free balance on top of the grant)
	deliver(funder, bankSend(funder.Addr, V.Addr, 1_000_000_000_000_000), bankSend(funder.Addr, V2.Addr, 1_000_000_000_000_000))
	trace = append(trace, fmt.Sprintf("t=%d V start=%d lockup=%s | V2 start=%d lockup=%s", now(), startV, periodsStr(lockV), startV2, periodsStr(lockV2)))

	type holding struct{ who vn.Account }
	holders := map[string][]vn.Account{} // liquid denom -> accounts that hold some (as ERC20 or coin)
	invariants := func(op string) bool {
		ctx := n.Ctx()
		sum := sdkmath.ZeroInt()
		for _, d := range n.App.LiquidVestingKeeper.GetAllDenoms(ctx) {
			sup := n.App.BankKeeper.GetSupply(ctx, d.BaseDenom).Amount
			sum = sum.Add(sup)
			if !d.LockupPeriods.TotalAmount().AmountOf(vn.Denom).Equal(sup) {
				r.Violation(id, op+"|Σschedule≠liquid-supply", fmt.Sprintf("%s: recorded schedule sums to %s, supply is %s", d.BaseDenom, d.LockupPeriods.TotalAmount(), sup), trace)
				return false
			}
			if d.EndTime.Unix() != d.StartTime.Unix()+d.LockupPeriods.TotalLength() {
				r.Violation(id, op+"|denom-end≠start+Σlength", d.BaseDenom, trace)
				return false
			}
		}
		// liquid supplies of denoms that no longer have a record must be zero
		n.App.BankKeeper.IterateTotalSupply(ctx, func(c sdk.Coin) bool {
			if strings.HasPrefix(c.Denom, "aLIQUID") {
				if _, found := n.App.LiquidVestingKeeper.GetDenom(ctx, c.Denom); !found && !c.Amount.IsZero() {
					sum = sum.Add(c.Amount)
					r.Violation(id, op+"|liquid-supply-without-schedule", c.String(), trace)
				}
			}
			return false
		})
		esc := n.Balance(modAddr, vn.Denom)
		if !esc.Equal(sum) {
			r.Violation(id, op+"|escrow≠Σliquid-supply", fmt.Sprintf("module holds %s aISLM, liquid tokens in circulation %s", esc, sum), trace)
			return false
		}
		r.Count("backing_checks", 1)
		return true
	}
	steps := 4 + rng.Intn(r.Pick(10, 16))
	for s := 0; s < steps; s++ {
		n.EndBlock()
		n.Commit()
		dt := time.Duration(rng.Intn(4000)+1) * time.Second
		if rng.Intn(4) == 0 {
			dt = time.Duration(rng.Intn(5)+1) * time.Second
		}
		// sometimes land exactly on a period boundary of V's current lockup
		if va := getVA(V.Addr); va != nil && rng.Intn(4) == 0 {
			for _, e := range refEvents(va.GetStartTime(), va.LockupPeriods) {
				if e.T > now() {
					dt = time.Duration(e.T-now()) * time.Second
					break
				}
			}
		}
		n.BeginBlock(vn.BlockOpts{Dt: dt})
		r.Eval(1)
		var denoms []string
		for d := range holders {
			denoms = append(denoms, d)
		}
		sort.Strings(denoms)
		k := rng.Intn(10)
		if len(denoms) == 0 {
			k = 0
		}
		switch {
		case k < 4: // liquidate
			va := getVA(V.Addr)
			t := now()
			lockedNow := lockedAt(va, t)
			if lockedNow.LT(sdkmath.NewInt(1000)) {
				continue
			}
			var amt sdkmath.Int
			acls := ""
			switch rng.Intn(5) {
			case 0:
				amt, acls = lockedNow, "all-locked"
			case 1:
				amt, acls = sdkmath.NewInt(1000), "minimum"
			case 2:
				amt, acls = lockedNow.AddRaw(1), "over"
			default:
				amt, acls = sdkmath.NewIntFromBigInt(new(big.Int).Rand(rng, lockedNow.BigInt())), "part"
				if amt.LT(sdkmath.NewInt(1000)) {
					amt = sdkmath.NewInt(1000)
				}
			}
			to := V
			toName := "self"
			if rng.Intn(3) == 0 {
				to, toName = H2, "other"
			}
			pre := *va
			preLock := clonePeriods(va.LockupPeriods)
			balBefore := n.Balance(V.Addr, vn.Denom)
			cnt := n.App.LiquidVestingKeeper.GetDenomCounter(n.Ctx())
			ok, log := deliver(V, lvtypes.NewMsgLiquidate(V.Addr, to.Addr, sdk.NewCoin(vn.Denom, amt)))
			phase := "mid-period"
			for _, e := range refEvents(pre.GetStartTime(), preLock) {
				if e.T == t {
					phase = "on-period-boundary"
				}
			}
			if t <= pre.GetStartTime() {
				phase = "before-start"
			}
			trace = append(trace, fmt.Sprintf("t=%d liquidate %s (%s of locked %s) to %s [%s] ok=%v %.80s", t, amt, acls, lockedNow, toName, phase, ok, log))
			if acls == "over" {
				if ok {
					r.Violation(id, "liquidate|more-than-locked-accepted", "", trace)
					return
				}
				r.Nontriv("liquidate|over|rejected")
				continue
			}
			if !ok {
				r.Count("rejected/liquidate", 1)
				r.Note("liquidate rejected: %.100s", log)
				continue
			}
			dn := lvtypes.DenomBaseNameFromID(cnt)
			d, found := n.App.LiquidVestingKeeper.GetDenom(n.Ctx(), dn)
			if !found {
				r.Violation(id, "liquidate|no-denom-record", dn, trace)
				return
			}
			post := getVA(V.Addr)
			// account debited exactly, liquid supply minted exactly
			if got := balBefore.Sub(n.Balance(V.Addr, vn.Denom)); !got.Equal(amt.Add(fee.AmountOf(vn.Denom))) {
				r.Violation(id, "liquidate|account-debit≠amount", fmt.Sprintf("debited %s (incl. fee %s) for %s", got, fee, amt), trace)
				return
			}
			if sup := n.Supply(dn); !sup.Equal(amt) {
				r.Violation(id, "liquidate|minted≠amount", fmt.Sprintf("minted %s for %s", sup, amt), trace)
				return
			}
			if !post.OriginalVesting.AmountOf(vn.Denom).Equal(pre.OriginalVesting.AmountOf(vn.Denom).Sub(amt)) {
				r.Violation(id, "liquidate|original-vesting", "", trace)
				return
			}
			// never earlier: for every t' >= now, what is still locked on the account plus what is
			// still locked in the liquid token is at least what the original schedule kept locked
			for _, tt := range probeTimes(rng, t, pre.EndTime, refEvents(pre.GetStartTime(), preLock), refEvents(d.StartTime.Unix(), d.LockupPeriods)) {
				if tt < t {
					continue
				}
				before := lockedAt(&pre, tt)
				relD := refRead(d.StartTime.Unix(), d.LockupPeriods, tt)[vn.Denom]
				if relD.IsNil() {
					relD = sdkmath.ZeroInt()
				}
				after := lockedAt(post, tt).Add(amt.Sub(relD))
				if after.LT(before) {
					r.Violation(id, "liquidate|"+phase+"|unlocks-earlier-than-original", fmt.Sprintf("at t=%d: still locked on account %s + in liquid token %s = %s < originally locked %s (denom start=%d periods=%s; account lockup after=%s)", tt, lockedAt(post, tt), amt.Sub(relD), after, before, d.StartTime.Unix(), periodsStr(d.LockupPeriods), periodsStr(post.LockupPeriods)), trace)
					return
				}
				if tt >= pre.EndTime && !after.Equal(before) {
					r.Violation(id, "liquidate|"+phase+"|never-fully-unlocks", fmt.Sprintf("at t=%d after=%s before=%s", tt, after, before), trace)
					return
				}
				r.Count("liquidate_time_probes", 1)
			}
			// per-period split of the upcoming tail
			up := len(d.LockupPeriods)
			if up > len(preLock) || len(post.LockupPeriods) != len(preLock) {
				r.Violation(id, "liquidate|period-structure", "", trace)
				return
			}
			for i := 0; i < up; i++ {
				o := preLock[len(preLock)-up+i].Amount.AmountOf(vn.Denom)
				l := post.LockupPeriods[len(preLock)-up+i].Amount.AmountOf(vn.Denom)
				m := d.LockupPeriods[i].Amount.AmountOf(vn.Denom)
				if l.IsNegative() || m.IsNegative() || !l.Add(m).Equal(o) {
					r.Violation(id, "liquidate|left+moved≠original", fmt.Sprintf("upcoming period %d: %s + %s ≠ %s", i, l, m, o), trace)
					return
				}
			}
			holders[dn] = append(holders[dn], to)
			if !invariants("liquidate") {
				return
			}
			r.Nontriv(fmt.Sprintf("liquidate|p%d|%s|to-%s|%s", bucket(len(preLock)), acls, toName, phase))
		case k < 6: // transfer liquid tokens (they live as ERC20 after liquidation)
			dn := denoms[rng.Intn(len(denoms))]
			hs := holders[dn]
			from := hs[rng.Intn(len(hs))]
			to := []vn.Account{H2, plain, V}[rng.Intn(3)]
			pairID := n.App.Erc20Keeper.GetTokenPairID(n.Ctx(), dn)
			pair, found := n.App.Erc20Keeper.GetTokenPair(n.Ctx(), pairID)
			if !found {
				continue
			}
			contract := pair.GetERC20Contract()
			bal := n.App.Erc20Keeper.BalanceOf(n.Ctx(), erc20ABI(), contract, from.Eth)
			if bal == nil || bal.Sign() == 0 {
				continue
			}
			amt := new(big.Int).Rand(rng, bal)
			amt.Add(amt, big.NewInt(1))
			if amt.Cmp(bal) > 0 {
				amt = bal
			}
			res := n.Deliver(n.EthTx(from, vn.EthArgs{Type: 2, Nonce: n.EthNonce(from.Eth), To: &contract, Gas: 200000, GasFeeCap: big.NewInt(1_000_000_000), GasTipCap: big.NewInt(1), Data: erc20TransferData(to.Eth, amt)}))
			trace = append(trace, fmt.Sprintf("t=%d erc20 transfer %s %s code=%d", now(), dn, amt, res.Code))
			if res.Code == 0 {
				holders[dn] = append(holders[dn], to)
				r.Nontriv("transfer|erc20")
			}
			if !invariants("transfer") {
				return
			}
		default: // redeem
			dn := denoms[rng.Intn(len(denoms))]
			d, found := n.App.LiquidVestingKeeper.GetDenom(n.Ctx(), dn)
			if !found {
				continue
			}
			hs := holders[dn]
			from := hs[rng.Intn(len(hs))]
			pairID := n.App.Erc20Keeper.GetTokenPairID(n.Ctx(), dn)
			pair, _ := n.App.Erc20Keeper.GetTokenPair(n.Ctx(), pairID)
			have := sdkmath.NewIntFromBigInt(n.App.Erc20Keeper.BalanceOf(n.Ctx(), erc20ABI(), pair.GetERC20Contract(), from.Eth)).Add(n.Balance(from.Addr, dn))
			if have.IsZero() {
				continue
			}
			var x sdkmath.Int
			xcls := ""
			switch rng.Intn(4) {
			case 0:
				x, xcls = have, "all"
			case 1:
				x, xcls = sdkmath.OneInt(), "one"
			case 2:
				x, xcls = have.AddRaw(1), "over"
			default:
				x, xcls = sdkmath.NewIntFromBigInt(new(big.Int).Rand(rng, have.BigInt())).AddRaw(1), "part"
				if x.GT(have) {
					x = have
				}
			}
			targets := []lvParty{{"self", from}, {"plain-eoa", plain}, {"fresh", fresh}, {"vesting-acc-V", V}, {"vesting-acc-V2", V2}}
			tg := targets[rng.Intn(len(targets))]
			t := now()
			preVA := getVA(tg.acc.Addr)
			var preCopy *vestingtypes.ClawbackVestingAccount
			if preVA != nil {
				c := *preVA
				c.LockupPeriods = clonePeriods(preVA.LockupPeriods)
				preCopy = &c
			}
			kind := tg.name
			if preVA != nil && tg.name != "vesting-acc-V" && tg.name != "vesting-acc-V2" {
				kind += "(vesting)"
			}
			if preVA != nil {
				if preVA.GetStartTime() < d.StartTime.Unix() {
					kind += "/account-start-earlier"
				} else {
					kind += "/account-start-later-or-equal"
				}
			}
			balBefore := n.Balance(tg.acc.Addr, vn.Denom)
			supBefore := n.Supply(dn)
			totalD := d.LockupPeriods.TotalAmount().AmountOf(vn.Denom)
			ok, log := deliver(from, lvtypes.NewMsgRedeem(from.Addr, tg.acc.Addr, sdk.NewCoin(dn, x)))
			trace = append(trace, fmt.Sprintf("t=%d redeem %s %s (%s of %s) to %s ok=%v %.80s", t, x, dn, xcls, have, kind, ok, log))
			if xcls == "over" {
				if ok {
					r.Violation(id, "redeem|more-than-held-accepted", "", trace)
					return
				}
				r.Nontriv("redeem|over|rejected")
				continue
			}
			if !ok {
				r.Count("rejected/redeem", 1)
				r.Note("redeem rejected: %.100s", log)
				continue
			}
			got := n.Balance(tg.acc.Addr, vn.Denom).Sub(balBefore)
			if from.Addr.Equals(tg.acc.Addr) {
				got = got.Add(fee.AmountOf(vn.Denom))
			}
			if !got.Equal(x) {
				r.Violation(id, "redeem|"+tg.name+"|paid≠amount", fmt.Sprintf("recipient received %s for %s", got, x), trace)
				return
			}
			if !supBefore.Sub(n.Supply(dn)).Equal(x) {
				r.Violation(id, "redeem|burned≠amount", "", trace)
				return
			}
			postVA := getVA(tg.acc.Addr)
			// pro-rata bound: at every t' the redeemed coins that are already unlocked are at most
			// x·released_D(t')/total_D under the denom's own (pre-redeem) schedule
			for _, tt := range probeTimes(rng, t, max64(d.EndTime.Unix(), t+10), refEvents(d.StartTime.Unix(), d.LockupPeriods)) {
				if tt < t {
					continue
				}
				relD := refRead(d.StartTime.Unix(), d.LockupPeriods, tt)[vn.Denom]
				if relD.IsNil() {
					relD = sdkmath.ZeroInt()
				}
				dLocked := lockedAt(postVA, tt).Sub(lockedAt(preCopy, tt)) // additional locked on the recipient
				// require dLocked·total ≥ x·(total − relD)
				if dLocked.Mul(totalD).LT(x.Mul(totalD.Sub(relD))) {
					r.Violation(id, "redeem|"+kindClass(kind)+"|early-unlock", fmt.Sprintf("at t=%d only %s of the %s redeemed stay locked; the liquid token's schedule (start=%d %s) still locks %s/%s of it", tt, dLocked, x, d.StartTime.Unix(), periodsStr(d.LockupPeriods), totalD.Sub(relD), totalD), trace)
					return
				}
				r.Count("redeem_time_probes", 1)
			}
			if postVA != nil {
				if err := postVA.Validate(); err != nil {
					r.Violation(id, "redeem|"+kindClass(kind)+"|invalid-account", err.Error(), trace)
					return
				}
			}
			if !invariants("redeem") {
				return
			}
			phase := "mid"
			if t >= d.EndTime.Unix() {
				phase = "after-end"
			}
			r.Nontriv(fmt.Sprintf("redeem|%s|%s|%s", kindClass(kind), xcls, phase))
		}
	}
}

func kindClass(k string) string { return k }

func bankSend(from, to sdk.AccAddress, amt int64) sdk.Msg {
	return &bankMsgSend{FromAddress: from.String(), ToAddress: to.String(), Amount: vn.Coins(amt)}
}

var _ = rand.Int
