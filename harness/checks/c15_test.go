//go:build verif

package checks

import (
	"fmt"
	"sort"
	"strings"
	"testing"

	"verif/harness/report"
	"verif/harness/vn"
)

func histCfgFor(r *report.R, id string) (histCfg, int64) {
	rng := r.Rand(id + "/cfg")
	h := histCfg{ChainID: "haqq_11235-1", Seed: uint64(r.Seed)*1000 + uint64(rng.Intn(1000)), NumVals: 3 + rng.Intn(2), NumAccounts: 8, GenesisTime: vn.DefaultGenesisTime,
		Coinomics: rng.Intn(2) == 0, BaseFee: rng.Intn(2) == 0, MaxGas: -1}
	if rng.Intn(3) == 0 {
		h.MaxGas = 40_000_000
	}
	if rng.Intn(4) == 0 {
		h.ChainID = "haqq_54211-3"
	}
	return h, rng.Int63()
}

func TestC15(t *testing.T) {
	r := report.Start("C15")
	defer r.Finish()
	nh := r.Cases(32, 1600)
	for i := 0; i < nh; i++ {
		id := fmt.Sprintf("hist/%d", i)
		if !r.Want(id, i) {
			continue
		}
		c15History(r, id)
	}
}

func c15History(r *report.R, id string) {
	h, _ := histCfgFor(r, id)
	g := newHistGen(h, r.Rand(id))
	n := g.n
	routes := n.App.CrisisKeeper.Routes()
	broken := ""
	var lastFamilies map[string]int
	g.hook = func(phase string) {
		if phase != "post-endblock" || broken != "" {
			return
		}
		ctx := n.Ctx()
		evaluated := 0
		for _, ir := range routes {
			var msg string
			var bad bool
			func() {
				// an invariant that cannot even be evaluated (the distribution invariants run the
				// withdrawal code on a cache branch) is a broken invariant
				defer func() {
					if rec := recover(); rec != nil {
						msg, bad = fmt.Sprintf("evaluation panicked: %.200v", rec), true
					}
				}()
				msg, bad = ir.Invar(ctx)
			}()
			evaluated++
			if bad {
				broken = ir.ModuleName + "/" + ir.Route
				// which families succeeded since the previous block
				var fams []string
				for k, v := range g.ok {
					if v > lastFamilies[k] {
						fams = append(fams, k)
					}
				}
				sort.Strings(fams)
				r.Violation(id, "invariant|"+broken, fmt.Sprintf("height %d: %s (successful tx families in this block: %v)", n.Height, msg, fams), map[string]any{"cfg": h, "height": n.Height})
				return
			}
		}
		r.Count("invariant_evaluations", evaluated)
		r.Count("blocks_checked", 1)
		haqqSpecific := false
		for k, v := range g.ok {
			if v > lastFamilies[k] {
				switch {
				case len(k) > 4 && (k[:4] == "evm." || k[:4] == "dao." || k[:4] == "vest" || k[:4] == "liqu" || k[:4] == "erc2" || k[:4] == "prec"):
					haqqSpecific = true
				}
			}
		}
		if haqqSpecific {
			r.Count("blocks_with_haqq_specific_txs", 1)
		}
		lastFamilies = map[string]int{}
		for k, v := range g.ok {
			lastFamilies[k] = v
		}
	}
	lastFamilies = map[string]int{}
	nblocks := r.Pick(60, 160)
	for b := 0; b < nblocks && broken == ""; b++ {
		func() {
			// a block that the application cannot process (panic in BeginBlock / EndBlock) halts the chain
			defer func() {
				if rec := recover(); rec != nil {
					broken = "block-processing-panicked"
					r.Violation(id, "block-processing-panicked", fmt.Sprintf("height %d: %.300v", n.Height, rec), map[string]any{"cfg": h, "height": n.Height})
				}
			}()
			g.block()
		}()
	}
	r.Eval(int(n.Height))
	if len(routes) < 12 {
		r.Inconcl("only %d invariant routes registered", len(routes))
	}
	for k, v := range g.ok {
		r.Count("tx_ok/"+k, v)
		if v > 0 {
			r.Nontriv("family|" + k)
		}
	}
	for k, v := range g.failLog {
		if g.ok[k] == 0 {
			r.Note("family %s never succeeded: %.260s", k, strings.SplitN(v, "\n", 2)[0])
		}
	}
	for k, v := range g.constr {
		r.Count("construct/"+k, v)
	}
	for k, v := range g.failReasons {
		if strings.HasPrefix(k, "liquidvesting") || strings.HasPrefix(k, "erc20") {
			r.Count("fail/"+k, v)
		}
	}
	r.Sample("history", map[string]any{"id": id, "cfg": h, "blocks": n.Height, "families_ok": g.families(), "routes": len(routes)})
}
