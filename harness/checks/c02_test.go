//go:build verif

package checks

import (
	authtypes "github.com/cosmos/cosmos-sdk/x/auth/types"
	"fmt"
	"math/big"
	"math/rand"
	"testing"

	sdkmath "cosmossdk.io/math"
	sdk "github.com/cosmos/cosmos-sdk/types"
	distrtypes "github.com/cosmos/cosmos-sdk/x/distribution/types"
	"github.com/ethereum/go-ethereum/common"

	"verif/harness/evmasm"
	"verif/harness/report"
	"verif/harness/vn"
)

func TestC02(t *testing.T) {
	r := report.Start("C02")
	defer r.Finish()
	// (a) precompile topologies: groups of cases share one chain
	ngroups := r.Cases(64, 3200)
	for g := 0; g < ngroups; g++ {
		gid := fmt.Sprintf("pc/%d", g)
		if !r.Want(gid, g) {
			continue
		}
		c02PrecompileGroup(r, gid)
	}
	// (b) precompile-free programs against the geth reference (value flows between contracts)
	nprog := r.Cases(64, 3200)
	for g := 0; g < nprog; g++ {
		gid := fmt.Sprintf("prog/%d", g)
		if !r.Want(gid, g) {
			continue
		}
		c02ProgramGroup(r, gid)
	}
	// (c0) value moved (or a contract created / destroyed) by a frame that then calls a precompile
	// and fails: nothing may be minted or burned, no balance may keep the move (shared with C05)
	fi := 0
	for rep := 0; rep < r.Cases(2, 40); rep++ {
		for _, v := range []string{"frame-moved-value", "frame-created-a-contract", "frame-self-destructed"} {
			for _, q := range []string{"distribution.delegatorWithdrawAddress(query)", "bank.balances(query)", "staking.delegate(tx)"} {
				for _, endKind := range []string{"revert", "out-of-gas"} {
					id := fmt.Sprintf("flush/%s/%s/%s/%d", v, q, endKind, rep)
					fi++
					if !r.Want(id, fi) {
						continue
					}
					c05Flush(r, id, v, q, endKind)
				}
			}
		}
	}
	// (c) a precompile credit inside a frame that fails, to an account the EVM first loads there and
	// that becomes dirty later in the transaction: nothing may be minted (shared with C05)
	idx := 0
	for rep := 0; rep < r.Cases(6, 120); rep++ {
		for _, endKind := range []string{"revert", "invalid", "out-of-gas"} {
			id := fmt.Sprintf("lateload/%s/%d", endKind, rep)
			idx++
			if !r.Want(id, idx) {
				continue
			}
			c05LateLoad(r, id, endKind)
		}
	}
}

type c02Case struct {
	m        pcMethod
	who      string // origin | contract
	topo     string // direct | viaC | viaCD | ctor | delegatecall
	attach   int64
	after    string // "" | third | origin | withdraw | fresh
	withdraw string // "" | origin-explicit | contract | third | fresh
}

func (c c02Case) String() string {
	return fmt.Sprintf("%s|who=%s|%s|attach=%v|after=%s|withdraw=%s", c.m.name, c.who, c.topo, c.attach > 0, c.after, c.withdraw)
}

func c02PrecompileGroup(r *report.R, gid string) {
	rng := r.Rand(gid)
	e := newPcEnv(uint64(r.Seed), rng)
	n := e.n
	methods := pcMethods()
	third := n.Accounts[5]
	nfresh := 0
	for k := 0; k < 6; k++ {
		cid := fmt.Sprintf("%s/%d", gid, k)
		if r.Replaying() && r.ReplayCase() != gid {
			return
		}
		r.Eval(1)
		origin := n.Accounts[k%4]
		c := c02Case{m: methods[rng.Intn(len(methods))]}
		c.who = []string{"origin", "origin", "contract"}[rng.Intn(3)]
		topos := []string{"direct", "viaC", "viaC", "viaCD", "ctor", "delegatecall"}
		c.topo = topos[rng.Intn(len(topos))]
		if c.who == "contract" && (c.topo == "direct" || c.topo == "ctor" || c.topo == "delegatecall" || c.topo == "viaCD") {
			c.topo = "viaC"
		}
		if c.topo != "direct" && rng.Intn(2) == 0 {
			c.attach = int64(rng.Intn(1000) + 1)
		}
		if c.topo != "direct" && c.topo != "ctor" {
			c.after = []string{"", "", "third", "origin", "withdraw", "fresh"}[rng.Intn(6)]
		}
		c.withdraw = []string{"", "", "origin-explicit", "contract", "third", "fresh"}[rng.Intn(6)]
		nfresh++
		freshAddr := vn.DetAccount(uint64(r.Seed)^0xC02, cid, nfresh)

		// ---- build contracts ----
		var root, caller common.Address // root: what the tx calls; caller: immediate caller of the precompile
		var post []evmasm.Step
		withdrawTarget := func(delegator common.Address) sdk.AccAddress {
			switch c.withdraw {
			case "origin-explicit":
				return origin.Addr
			case "contract":
				return nil // filled after deployment
			case "third":
				return third.Addr
			case "fresh":
				return freshAddr.Addr
			}
			return nil
		}
		_ = withdrawTarget
		afterAmt := int64(rng.Intn(50) + 1)
		mkPost := func(self common.Address, wd sdk.AccAddress) []evmasm.Step {
			var to common.Address
			switch c.after {
			case "third":
				to = third.Eth
			case "origin":
				to = origin.Eth
			case "fresh":
				to = vn.DetAccount(uint64(r.Seed)^0xC02, cid+"after", 1).Eth
			case "withdraw":
				if wd == nil {
					return nil
				}
				to = common.BytesToAddress(wd)
			default:
				return nil
			}
			return []evmasm.Step{evmasm.CallStep{Kind: evmasm.Call, To: to, Value: big.NewInt(afterAmt), Fail: evmasm.Ignore, Record: 2}}
		}
		var err error
		// the delegator whose funds / stake / rewards the method touches
		var delegator common.Address
		needPost := c.after != ""
		switch c.topo {
		case "direct":
			root, caller = c.m.pc, origin.Eth
		case "viaC", "delegatecall", "viaCD":
			// post steps need the withdraw address, which may be the contract itself: deploy in two
			// steps is impossible, so when withdraw=contract the post transfer target "withdraw" is
			// the contract itself (a self transfer) - skip that combination
			if c.withdraw == "contract" && c.after == "withdraw" {
				c.after = "third"
			}
			var wd sdk.AccAddress
			switch c.withdraw {
			case "origin-explicit":
				wd = origin.Addr
			case "third":
				wd = third.Addr
			case "fresh":
				wd = freshAddr.Addr
			}
			if c.after == "withdraw" && wd == nil {
				if c.who == "origin" {
					wd = origin.Addr
				} else {
					c.after = "third"
				}
			}
			post = mkPost(common.Address{}, wd)
			switch c.topo {
			case "viaC":
				steps := append([]evmasm.Step{evmasm.Forward{Kind: evmasm.Call, To: c.m.pc, Fail: evmasm.Ignore, Record: 1}}, post...)
				root, err = e.deploy(steps, 1_000_000*stakeUnit/1000)
				caller = root
			case "delegatecall":
				lib, err2 := e.deploy([]evmasm.Step{evmasm.Forward{Kind: evmasm.Call, To: c.m.pc, Fail: evmasm.Bubble}}, 0)
				if err2 != nil {
					err = err2
					break
				}
				steps := append([]evmasm.Step{evmasm.Forward{Kind: evmasm.DelegateCall, To: lib, Fail: evmasm.Ignore, Record: 1}}, post...)
				root, err = e.deploy(steps, 1_000_000*stakeUnit/1000)
				caller = root
			case "viaCD":
				d, err2 := e.deploy([]evmasm.Step{evmasm.Forward{Kind: evmasm.Call, To: c.m.pc, Fail: evmasm.Bubble}}, 500)
				if err2 != nil {
					err = err2
					break
				}
				steps := append([]evmasm.Step{evmasm.Forward{Kind: evmasm.Call, To: d, Fail: evmasm.Ignore, Record: 1}}, post...)
				root, err = e.deploy(steps, 1_000_000*stakeUnit/1000)
				caller = d
			}
		case "ctor":
			// the measured tx is a create; the caller of the precompile is the new contract
			caller = vn.CreateAddress(origin.Eth, n.EthNonce(origin.Eth)+approveCount(c))
		}
		_ = needPost
		if err != nil {
			r.Note("setup: %v", err)
			continue
		}
		if c.who == "origin" {
			delegator = origin.Eth
		} else {
			delegator = caller
		}
		// ---- prerequisites ----
		if c.m.authz != "" && c.topo != "direct" {
			if !e.approve(origin, caller, new(big.Int).Mul(big.NewInt(stakeUnit), big.NewInt(100000)), c.m.authz, stakingDelegateMsg) {
				r.Note("approve failed")
				continue
			}
		}
		if c.who == "contract" {
			// the contract gets its own delegation first (and lets rewards accrue)
			if c.m.authz == "" {
				if !e.approve(origin, caller, new(big.Int).Mul(big.NewInt(stakeUnit), big.NewInt(100000)), stakingDelegateMsg) {
					continue
				}
			}
			data, err := e.abiStaking.Pack("delegate", caller, n.Vals[rng.Intn(3)].ValAddr.String(), big.NewInt(stakeUnit*400))
			vn.Must(err)
			res := n.Deliver(n.EthTx(origin, vn.EthArgs{Nonce: n.EthNonce(origin.Eth), To: &root, Gas: 1_500_000, GasPrice: vn.HelperGasPrice, Data: data}))
			if res.Code != 0 || e.slot(root, 1) != 2 {
				r.Note("contract self-delegation failed: code=%d slot=%d", res.Code, e.slot(root, 1))
				continue
			}
			if c.m.name == "cancelUnbondingDelegation" {
				// create an unbonding entry of the contract
				dels := n.App.StakingKeeper.GetDelegatorDelegations(n.Ctx(), caller.Bytes(), 5)
				ud, _ := e.abiStaking.Pack("undelegate", caller, dels[0].ValidatorAddress, big.NewInt(stakeUnit*50))
				if !e.approve(origin, caller, new(big.Int).Mul(big.NewInt(stakeUnit), big.NewInt(100000)), stakingUndelegateMsg, stakingCancelMsg, stakingDelegateMsg) {
					continue
				}
				n.Deliver(n.EthTx(origin, vn.EthArgs{Nonce: n.EthNonce(origin.Eth), To: &root, Gas: 1_500_000, GasPrice: vn.HelperGasPrice, Data: ud}))
			}
			e.nextBlock()
			e.nextBlock()
		}
		// withdraw address of the delegator
		var wdAddr sdk.AccAddress
		switch c.withdraw {
		case "origin-explicit":
			wdAddr = origin.Addr
		case "contract":
			if c.topo != "direct" && c.topo != "ctor" {
				wdAddr = sdk.AccAddress(root.Bytes())
			}
		case "third":
			wdAddr = third.Addr
		case "fresh":
			wdAddr = freshAddr.Addr
		}
		if wdAddr != nil && c.m.name != "setWithdrawAddress" {
			if c.who == "origin" {
				e.mustCosmos(origin, distrtypes.NewMsgSetWithdrawAddress(origin.Addr, wdAddr))
			} else {
				sw, _ := e.abiDist.Pack("setWithdrawAddress", caller, wdAddr.String())
				res := n.Deliver(n.EthTx(origin, vn.EthArgs{Nonce: n.EthNonce(origin.Eth), To: &root, Gas: 1_500_000, GasPrice: vn.HelperGasPrice, Data: sw}))
				if res.Code != 0 || e.slot(root, 1) != 2 {
					r.Note("contract setWithdrawAddress failed")
					continue
				}
			}
		}
		// ---- the measured transaction ----
		data, native := c.m.pack(e, delegator, rng)
		var natives []sdk.Msg
		if native != nil {
			natives = []sdk.Msg{native}
		} else {
			natives = e.claimNative(delegator)
		}
		args := vn.EthArgs{Nonce: n.EthNonce(origin.Eth), To: &root, Gas: 2_000_000, GasPrice: big.NewInt(1_000_000_000 + int64(rng.Intn(1000))), Data: data, Value: big.NewInt(c.attach)}
		if c.topo == "ctor" {
			args.To = nil
			args.Data = evmasm.InitCode([]evmasm.Step{evmasm.CallStep{Kind: evmasm.Call, To: c.m.pc, Data: data, Fail: evmasm.Bubble}}, []evmasm.Step{evmasm.Stop{}})
			root = vn.CreateAddress(origin.Eth, args.Nonce)
			if root != caller {
				r.Note("ctor address prediction off")
				continue
			}
		}
		// expected Cosmos-side effect: the native message(s) on a branch of the state right now
		nat, natErr := e.nativeEffects(natives)
		balBefore, supBefore := e.balances()
		res := n.Deliver(n.EthTx(origin, args))
		balAfter, supAfter := e.balances()
		ers := vn.EthResult(res)
		if res.Code != 0 || len(ers) != 1 {
			r.Note("measured tx rejected: %.100s", res.Log)
			continue
		}
		txOK := ers[0].VmError == ""
		callOK := txOK
		if c.topo == "viaC" || c.topo == "viaCD" || c.topo == "delegatecall" {
			callOK = txOK && e.slot(root, 1) == 2
		}
		afterOK := c.after != "" && txOK && e.slot(root, 2) == 2
		// expected deltas
		exp := map[string]sdkmath.Int{}
		add := func(a common.Address, v sdkmath.Int) {
			k := a.Hex()
			cur, ok := exp[k]
			if !ok {
				cur = sdkmath.ZeroInt()
			}
			exp[k] = cur.Add(v)
		}
		feeAmt := sdkmath.NewIntFromBigInt(new(big.Int).Mul(args.GasPrice, new(big.Int).SetUint64(ers[0].GasUsed)))
		add(origin.Eth, feeAmt.Neg())
		add(common.BytesToAddress(e.feeColl), feeAmt)
		if txOK && c.attach > 0 {
			add(origin.Eth, sdkmath.NewInt(c.attach).Neg())
			add(root, sdkmath.NewInt(c.attach))
		}
		if afterOK {
			st := post[0].(evmasm.CallStep)
			add(root, sdkmath.NewInt(afterAmt).Neg())
			add(st.To, sdkmath.NewInt(afterAmt))
		}
		if callOK {
			if natErr != nil {
				// the precompile succeeded where the native message fails: C16's business; skip here
				r.Count("native_failed_but_precompile_succeeded", 1)
				continue
			}
			for k, v := range nat {
				add(common.HexToAddress(k), v)
			}
		}
		for k, v := range exp {
			if v.IsZero() {
				delete(exp, k)
			}
		}
		obs := balDelta(balBefore, balAfter)
		names := e.names(map[string]string{root.Hex(): "contract", caller.Hex(): "caller-contract", freshAddr.Eth.Hex(): "fresh"})
		names[root.Hex()] = "contract"
		dirty := "dirty:none"
		if c.attach > 0 && c.after != "" {
			dirty = "dirty:origin+contract+recipient"
		} else if c.attach > 0 {
			dirty = "dirty:origin+contract"
		} else if c.after != "" {
			dirty = "dirty:contract+recipient"
		}
		wdRel := "withdraw=self"
		if wdAddr != nil {
			wdRel = "withdraw=" + c.withdraw
		}
		sigBase := fmt.Sprintf("%s|who=%s|%s|%s|%s", c.m.name, c.who, c.topo, dirty, wdRel)
		detail := map[string]any{"case": c.String(), "expected": deltaStr(exp, names), "observed": deltaStr(obs, names), "txOK": txOK, "precompileCallOK": callOK, "vmError": ers[0].VmError}
		bad := false
		if !supAfter.Equal(supBefore) {
			rel := "minted"
			if supAfter.LT(supBefore) {
				rel = "burned"
			}
			r.Violation(gid, sigBase+"|supply-"+rel, fmt.Sprintf("total supply changed by %s during one Ethereum tx; expected flows {%s} observed {%s}", supAfter.Sub(supBefore), deltaStr(exp, names), deltaStr(obs, names)), detail)
			bad = true
		}
		if !bad {
			for k, v := range exp {
				if o, ok := obs[k]; !ok || !o.Equal(v) {
					r.Violation(gid, sigBase+"|balance≠flows:"+roleOf(names, k), fmt.Sprintf("account %s changed by %v, flows say %s; expected {%s} observed {%s}", names[k], obs[k], v, deltaStr(exp, names), deltaStr(obs, names)), detail)
					bad = true
					break
				}
			}
		}
		if !bad {
			for k, o := range obs {
				if _, ok := exp[k]; !ok {
					r.Violation(gid, sigBase+"|balance≠flows:"+roleOf(names, k), fmt.Sprintf("account %s changed by %s without a corresponding flow; expected {%s} observed {%s}", names[k], o, deltaStr(exp, names), deltaStr(obs, names)), detail)
					bad = true
					break
				}
			}
		}
		r.Count("precompile_txs_checked", 1)
		if callOK {
			r.Count("precompile_calls_succeeded/"+c.m.name, 1)
			if len(nat) > 0 {
				r.Nontriv(sigBase)
			}
		}
		r.Sample(c.m.name, map[string]any{"case": c.String(), "expected": deltaStr(exp, names), "observed": deltaStr(obs, names)})
		if bad {
			// state may be inconsistent now: stop using this chain
			return
		}
		if rng.Intn(2) == 0 {
			e.nextBlock()
		}
	}
	n.EndBlock()
	n.Commit()
}

func roleOf(names map[string]string, k string) string {
	if v, ok := names[k]; ok {
		return v
	}
	return "other"
}

func approveCount(c c02Case) uint64 {
	if c.m.authz != "" {
		return 1
	}
	return 0
}

const (
	stakingDelegateMsg   = "/cosmos.staking.v1beta1.MsgDelegate"
	stakingUndelegateMsg = "/cosmos.staking.v1beta1.MsgUndelegate"
	stakingCancelMsg     = "/cosmos.staking.v1beta1.MsgCancelUnbondingDelegation"
)

// c02ProgramGroup: precompile-free programs; every touched account's balance after the tx
// must equal what go-ethereum's own state transition leaves it with (fees aside), and the
// supply must not move.
func c02ProgramGroup(r *report.R, gid string) {
	rng := r.Rand(gid)
	n := vn.New(vn.Config{Seed: uint64(r.Seed), NumVals: 1, NumAccounts: 8})
	deployer := n.Accounts[7]
	nfresh := 0
	fresh := func() common.Address {
		nfresh++
		return vn.DetAccount(uint64(r.Seed)^0x99, gid, nfresh).Eth
	}
	eoas := []common.Address{n.Accounts[4].Eth, n.Accounts[5].Eth, n.Accounts[0].Eth}
	n.BeginBlock(vn.BlockOpts{})
	for k := 0; k < 8; k++ {
		r.Eval(1)
		a := n.Accounts[rng.Intn(4)]
		if rng.Intn(4) == 0 {
			if !c02PrefundedCreate(r, gid, n, rng, a, eoas, fresh) {
				break
			}
			continue
		}
		p := genProg(rng, 3, eoas, fresh)
		all, err := deployProg(n, deployer, p)
		if err != nil {
			r.Note("deploy: %v", err)
			continue
		}
		to := p.addr
		args := vn.EthArgs{Data: []byte{1}, Type: rng.Intn(3), Nonce: n.EthNonce(a.Eth), To: &to, Gas: uint64(300000 + rng.Intn(2_000_000)), GasPrice: big.NewInt(1_000_000_000), GasFeeCap: big.NewInt(1_000_000_000), GasTipCap: big.NewInt(1_000_000_000), Value: big.NewInt(int64(rng.Intn(500)))}
		tx := n.SignEth(a, args)
		addrs := append(append(all, p.targets()...), a.Eth)
		ref := gethRef(n, tx, nil, addrs)
		if ref.Err != nil {
			r.Note("geth ref: %v", ref.Err)
			continue
		}
		supBefore := n.Supply(vn.Denom)
		res := n.Deliver(n.WrapEth(tx))
		ers := vn.EthResult(res)
		if res.Code != 0 || len(ers) != 1 {
			continue
		}
		outcome := "success"
		if ers[0].VmError != "" {
			outcome = "failed"
		}
		bad := false
		if sup := n.Supply(vn.Denom); !sup.Equal(supBefore) {
			r.Violation(gid, "program|"+outcome+"|supply-changed", fmt.Sprintf("supply %s → %s; %s", supBefore, sup, p.shape()), nil)
			bad = true
		}
		extra := new(big.Int).Mul(tx.GasPrice(), new(big.Int).SetUint64(ers[0].GasUsed-ref.UsedGas))
		for addr, want := range ref.Balances {
			w := new(big.Int).Set(want)
			if addr == a.Eth {
				w.Sub(w, extra) // the min-gas multiplier may charge more gas than the EVM used
			}
			got := n.Balance(sdk.AccAddress(addr.Bytes()), vn.Denom).BigInt()
			if got.Cmp(w) != 0 && !bad {
				role := "contract-or-recipient"
				if addr == a.Eth {
					role = "sender"
				}
				r.Violation(gid, "program|"+outcome+"|balance≠reference:"+role, fmt.Sprintf("%s has %s, go-ethereum reference %s; %s", addr.Hex(), got, w, p.shape()), nil)
				bad = true
			}
		}
		if bad {
			break
		}
		r.Count("programs_matched_reference/"+outcome, 1)
		r.Nontriv(fmt.Sprintf("program|%s|calls%d|value%v", outcome, bucket(len(all)), tx.Value().Sign() > 0))
		r.Sample("program", p.shape())
	}
	n.EndBlock()
	n.Commit()
}

// c02PrefundedCreate: a contract is created on an address that already holds native coins (a plain
// code-less account in the store); its constructor pays someone, destroys the contract in favour
// of a beneficiary, or just returns.  Supply and every balance are compared with go-ethereum.
func c02PrefundedCreate(r *report.R, gid string, n *vn.Node, rng *rand.Rand, a vn.Account, eoas []common.Address, fresh func() common.Address) bool {
	funder := n.Accounts[6]
	nonce := n.EthNonce(a.Eth)
	addr := vn.CreateAddress(a.Eth, nonce)
	pre := int64(rng.Intn(1_000_000) + 10)
	gp := big.NewInt(1_000_000_000)
	if res := n.Deliver(n.EthTx(funder, vn.EthArgs{Nonce: n.EthNonce(funder.Eth), To: &addr, Value: big.NewInt(pre), Gas: 21000, GasPrice: gp})); res.Code != 0 {
		r.Note("prefund: %.100s", res.Log)
		return true
	}
	ben, cls := eoas[rng.Intn(len(eoas))], "eoa"
	switch rng.Intn(4) {
	case 0:
		ben, cls = fresh(), "fresh"
	case 1:
		ben, cls = addr, "self"
	}
	var ctor []evmasm.Step
	ending := "selfdestruct"
	switch rng.Intn(3) {
	case 0:
		ctor = []evmasm.Step{evmasm.SelfDestruct{To: ben}}
	case 1:
		ctor, ending = []evmasm.Step{evmasm.Transfer{To: eoas[0], Value: big.NewInt(pre / 2)}, evmasm.SelfDestruct{To: ben}}, "pays-then-selfdestruct"
	default:
		ctor, ending, cls = []evmasm.Step{evmasm.Transfer{To: eoas[0], Value: big.NewInt(pre / 3)}}, "pays-and-stays", "none"
	}
	args := vn.EthArgs{Type: rng.Intn(3), Nonce: nonce, Data: evmasm.InitCode(ctor, []evmasm.Step{evmasm.Stop{}}), Gas: 600000, GasPrice: gp, GasFeeCap: gp, GasTipCap: gp, Value: big.NewInt(int64(rng.Intn(300)))}
	tx := n.SignEth(a, args)
	addrs := []common.Address{addr, ben, eoas[0], a.Eth}
	ref := gethRef(n, tx, nil, addrs)
	if ref.Err != nil {
		r.Note("geth ref: %v", ref.Err)
		return true
	}
	supBefore := n.Supply(vn.Denom)
	var sumBefore, sumRef big.Int
	seen := map[common.Address]bool{}
	for _, x := range addrs {
		if !seen[x] {
			seen[x] = true
			sumBefore.Add(&sumBefore, n.Balance(sdk.AccAddress(x.Bytes()), vn.Denom).BigInt())
		}
	}
	collBefore := n.Balance(authtypes.NewModuleAddress(authtypes.FeeCollectorName), vn.Denom)
	res := n.Deliver(n.WrapEth(tx))
	ers := vn.EthResult(res)
	if res.Code != 0 || len(ers) != 1 {
		r.Note("prefunded create rejected: %.100s", res.Log)
		return true
	}
	outcome := "success"
	if ers[0].VmError != "" {
		outcome = "failed"
	}
	sig := fmt.Sprintf("create-on-funded-address|%s|beneficiary=%s|%s", ending, cls, outcome)
	extra := new(big.Int).Mul(tx.GasPrice(), new(big.Int).SetUint64(ers[0].GasUsed-ref.UsedGas))
	for x := range seen {
		w := new(big.Int).Set(ref.Balances[x])
		if x == a.Eth {
			w.Sub(w, extra)
		}
		sumRef.Add(&sumRef, w)
		if got := n.Balance(sdk.AccAddress(x.Bytes()), vn.Denom).BigInt(); got.Cmp(w) != 0 {
			r.Violation(gid, sig+"|balance≠reference", fmt.Sprintf("%s has %s, go-ethereum reference %s (address funded with %d before the creation)", x.Hex(), got, w, pre), nil)
			return false
		}
	}
	// supply: changes by exactly what the reference destroys (a contract destroyed in its own favour)
	fees := n.Balance(authtypes.NewModuleAddress(authtypes.FeeCollectorName), vn.Denom).Sub(collBefore).BigInt()
	wantSupply := new(big.Int).Add(supBefore.BigInt(), new(big.Int).Sub(new(big.Int).Add(&sumRef, fees), &sumBefore))
	if got := n.Supply(vn.Denom).BigInt(); got.Cmp(wantSupply) != 0 {
		r.Violation(gid, sig+"|supply-changed", fmt.Sprintf("supply %s → %s, expected %s", supBefore, got, wantSupply), nil)
		return false
	}
	r.Count("creations_on_funded_addresses_matched_reference", 1)
	r.Nontriv(sig)
	return true
}

var _ = rand.Int
