//go:build verif

package checks

import (
	"github.com/cosmos/cosmos-sdk/x/params"
	paramproposal "github.com/cosmos/cosmos-sdk/x/params/types/proposal"
	"fmt"
	"math/big"
	"testing"
	"time"

	sdkmath "cosmossdk.io/math"
	"github.com/cosmos/cosmos-sdk/codec"
	sdk "github.com/cosmos/cosmos-sdk/types"
	authtypes "github.com/cosmos/cosmos-sdk/x/auth/types"
	stakingtypes "github.com/cosmos/cosmos-sdk/x/staking/types"

	haqqtypes "github.com/haqq-network/haqq/types"
	coinomicstypes "github.com/haqq-network/haqq/x/coinomics/types"

	"verif/harness/report"
	"verif/harness/vn"
)

func TestC13(t *testing.T) {
	r := report.Start("C13")
	defer r.Finish()
	nh := r.Cases(96, 6400)
	for i := 0; i < nh; i++ {
		id := fmt.Sprintf("hist/%d", i)
		if !r.Want(id, i) {
			continue
		}
		c13History(r, id)
	}
}

func yearMillis(t time.Time) int64 {
	y := t.UTC().Year()
	if (y%4 == 0 && y%100 != 0) || y%400 == 0 {
		return 366 * 24 * 3600 * 1000
	}
	return 365 * 24 * 3600 * 1000
}

var c13Starts = []struct {
	name string
	t    time.Time
}{
	{"2026-mid", time.Date(2026, 6, 15, 10, 0, 0, 0, time.UTC)},
	{"2027→2028", time.Date(2027, 12, 31, 23, 58, 0, 0, time.UTC)},
	{"2028-leap", time.Date(2028, 2, 28, 23, 59, 0, 0, time.UTC)},
	{"2028→2029", time.Date(2028, 12, 31, 23, 59, 30, 0, time.UTC)},
	{"2099→2100", time.Date(2099, 12, 31, 23, 59, 0, 0, time.UTC)},
	{"2100-nonleap", time.Date(2100, 2, 28, 12, 0, 0, 0, time.UTC)},
	{"2399→2400", time.Date(2399, 12, 31, 23, 59, 50, 0, time.UTC)},
}

func c13History(r *report.R, id string) {
	rng := r.Rand(id)
	st := c13Starts[rng.Intn(len(c13Starts))]
	// stake scale: tiny, harness, mainnet-like
	var power int64
	var scale string
	switch rng.Intn(3) {
	case 0:
		power, scale = 1, "stake~1e18"
	case 1:
		power, scale = 1_000_000, "stake~1e24"
	default:
		power, scale = 5_000_000_000, "stake~1e28"
	}
	coefChoices := []sdk.Dec{sdk.NewDecWithPrec(78, 1), sdk.NewDec(0), sdk.NewDecWithPrec(1, 18), sdk.NewDec(100), sdk.NewDecWithPrec(int64(rng.Intn(20000)+1), 3), sdk.NewDecWithPrec(123456789, 9)}
	coef := coefChoices[rng.Intn(len(coefChoices))]
	capMode := rng.Intn(5) // 0: far away, 1: just above supply, 2: = supply, 3: below supply, 4: reachable in a few blocks
	cfg := vn.Config{Seed: uint64(r.Seed), NumVals: 1 + rng.Intn(3), NumAccounts: 3, GenesisTime: st.t, ValPower: power,
		AccountBalance: sdk.TokensFromConsensusPower(power, haqqtypes.PowerReduction).MulRaw(3)}
	startEnabled := rng.Intn(4) > 0
	cfg.Mutate = func(cdc codec.Codec, gs haqqtypes.GenesisState) {
		p := coinomicstypes.DefaultParams()
		p.RewardCoefficient = coef
		p.EnableCoinomics = startEnabled
		g := coinomicstypes.NewGenesisState(p, sdk.NewCoin(vn.Denom, sdkmath.NewIntWithDecimal(1, 40)))
		gs[coinomicstypes.ModuleName] = cdc.MustMarshalJSON(&g)
	}
	n := vn.New(cfg)
	ck := n.App.CoinomicsKeeper
	feeColl := authtypes.NewModuleAddress(authtypes.FeeCollectorName)

	// cap relative to genesis supply, set on the first block's context (what a passed
	// governance proposal or an upgrade handler does through the same keeper)
	n.BeginBlock(vn.BlockOpts{Dt: time.Second})
	supply0 := n.Supply(vn.Denom)
	capName := "cap-far"
	switch capMode {
	case 1:
		ck.SetMaxSupply(n.Ctx(), sdk.NewCoin(vn.Denom, supply0.AddRaw(int64(rng.Intn(1000)+1))))
		capName = "cap-just-above"
	case 2:
		ck.SetMaxSupply(n.Ctx(), sdk.NewCoin(vn.Denom, supply0))
		capName = "cap=supply"
	case 3:
		ck.SetMaxSupply(n.Ctx(), sdk.NewCoin(vn.Denom, supply0.SubRaw(int64(rng.Intn(1000)+1))))
		capName = "cap-below"
	case 4:
		// roughly a few blocks' worth of minting above the supply
		per := sdk.NewDecFromInt(n.App.StakingKeeper.TotalBondedTokens(n.Ctx())).Mul(coef).QuoInt64(100).MulInt64(5000).QuoInt64(31536000000).TruncateInt()
		ck.SetMaxSupply(n.Ctx(), sdk.NewCoin(vn.Denom, supply0.Add(per.MulRaw(int64(rng.Intn(6)+1))).AddRaw(int64(rng.Intn(5)))))
		capName = "cap-reachable"
	}

	var trace []string
	ranPrev := false // coinomics ran (was enabled at its end-blocker) in the previous block
	var prevBlockTime time.Time
	nblocks := 10 + rng.Intn(r.Pick(25, 40))
	fee := sdk.NewCoins(sdk.NewCoin(vn.Denom, sdkmath.NewInt(0)))
	_ = fee
	for b := 0; b < nblocks; b++ {
		if b > 0 {
			var dt time.Duration
			var dcls string
			switch rng.Intn(8) {
			case 0:
				dt, dcls = time.Millisecond, "1ms"
			case 1:
				dt, dcls = time.Duration(rng.Intn(999)+1)*time.Millisecond, "<1s"
			case 2, 3, 4:
				dt, dcls = time.Duration(rng.Intn(9000)+1000)*time.Millisecond, "1-10s"
			case 5:
				dt, dcls = time.Duration(rng.Intn(3600)+1)*time.Second, "<1h"
			case 6:
				dt, dcls = time.Duration(rng.Intn(72)+1)*time.Hour, "days"
			default:
				dt, dcls = time.Duration(rng.Intn(400)+1)*24*time.Hour, "months"
			}
			_ = dcls
			n.BeginBlock(vn.BlockOpts{Dt: dt})
		}
		storedParams := func(ctx sdk.Context) coinomicstypes.Params {
			var p coinomicstypes.Params
			n.App.GetSubspace(coinomicstypes.ModuleName).GetParamSet(ctx, &p)
			return p
		}
		// state-changing inputs inside the block
		ev := ""
		// the route a governance proposal takes: the x/params proposal handler writes the subspace itself
		govParam := func(key, val string) error {
			h := params.NewParamChangeProposalHandler(n.App.ParamsKeeper)
			return h(n.Ctx(), paramproposal.NewParameterChangeProposal("t", "d", []paramproposal.ParamChange{paramproposal.NewParamChange(coinomicstypes.ModuleName, key, val)}))
		}
		switch rng.Intn(7) {
		case 0: // bonded changes: delegate
			a := n.Accounts[rng.Intn(len(n.Accounts))]
			amt := sdk.TokensFromConsensusPower(power, haqqtypes.PowerReduction).QuoRaw(int64(rng.Intn(9) + 2))
			msg := stakingtypes.NewMsgDelegate(a.Addr, n.Vals[rng.Intn(len(n.Vals))].ValAddr, sdk.NewCoin(vn.Denom, amt))
			res := n.Deliver(n.CosmosTx(vn.CosmosArgs{Msgs: []sdk.Msg{msg}, Gas: 500000, Fee: sdk.NewCoins(sdk.NewCoin(vn.Denom, sdkmath.NewInt(1)))}, a))
			ev = fmt.Sprintf("delegate ok=%v", res.Code == 0)
		case 1: // coefficient change
			p := storedParams(n.Ctx())
			p.RewardCoefficient = coefChoices[rng.Intn(len(coefChoices))]
			if rng.Intn(2) == 0 {
				ck.SetParams(n.Ctx(), p)
				ev = "coef=" + p.RewardCoefficient.String()
			} else if err := govParam(string(coinomicstypes.ParamStoreKeyRewardCoefficient), fmt.Sprintf("%q", p.RewardCoefficient.String())); err == nil {
				ev = "coef(gov)=" + p.RewardCoefficient.String()
				r.Count("param_changes_through_the_governance_handler", 1)
			} else {
				r.Note("param change proposal: %v", err)
			}
		case 2: // toggle
			if rng.Intn(2) == 0 {
				p := storedParams(n.Ctx())
				p.EnableCoinomics = !p.EnableCoinomics
				if rng.Intn(2) == 0 {
					ck.SetParams(n.Ctx(), p)
					ev = fmt.Sprintf("enable=%v", p.EnableCoinomics)
				} else if err := govParam(string(coinomicstypes.ParamStoreKeyEnableCoinomics), fmt.Sprintf("%v", p.EnableCoinomics)); err == nil {
					ev = fmt.Sprintf("enable(gov)=%v", p.EnableCoinomics)
					r.Count("param_changes_through_the_governance_handler", 1)
				} else {
					r.Note("param change proposal: %v", err)
				}
			}
		case 3: // raise the cap again (re-enable path)
			if capMode != 0 && rng.Intn(3) == 0 {
				ck.SetMaxSupply(n.Ctx(), sdk.NewCoin(vn.Denom, n.Supply(vn.Denom).Add(sdkmath.NewIntWithDecimal(1, 30))))
				ev = "cap-raised"
			}
		}
		// observation window: around EndBlock
		ctx := n.Ctx()
		p := storedParams(ctx) // what the parameter store holds, not what the keeper's accessor says
		enabled := p.EnableCoinomics
		prevTS := ck.GetPrevBlockTS(ctx)
		supplyBefore := n.Supply(vn.Denom)
		collBefore := n.Balance(feeColl, vn.Denom)
		maxSupply := ck.GetMaxSupply(ctx).Amount
		n.EndBlock()
		ctx = n.Ctx()
		bonded := n.App.StakingKeeper.TotalBondedTokens(ctx)
		minted := n.Supply(vn.Denom).Sub(supplyBefore)
		toColl := n.Balance(feeColl, vn.Denom).Sub(collBefore)
		enabledAfter := storedParams(ctx).EnableCoinomics
		prevTSAfter := ck.GetPrevBlockTS(ctx)
		nowMs := n.Time.UnixMilli()
		r.Eval(1)
		trace = append(trace, fmt.Sprintf("h=%d t=%s %s enabled=%v minted=%s", n.Height, n.Time.Format(time.RFC3339Nano), ev, enabled, minted))
		if len(trace) > 14 {
			trace = trace[len(trace)-14:]
		}
		detail := func() map[string]any {
			return map[string]any{"start": st.name, "scale": scale, "cap": capName, "trace": trace, "bonded": bonded.String(), "coef": p.RewardCoefficient.String(),
				"prevTS": prevTS.String(), "nowMs": nowMs, "supplyBefore": supplyBefore.String(), "max": maxSupply.String(), "minted": minted.String()}
		}
		viol := func(sig, what string) {
			r.Violation(id, sig, what, detail())
		}
		bad := false
		if !minted.Equal(toColl) {
			viol("any|minted≠fee-collector-credit", fmt.Sprintf("supply grew by %s, fee collector by %s", minted, toColl))
			bad = true
		}
		regime := ""
		switch {
		case !enabled:
			regime = "disabled"
			if !minted.IsZero() {
				viol("disabled|minted>0", "minted "+minted.String()+" while disabled")
				bad = true
			}
		case !ranPrev:
			regime = "first-after-activation"
			if !minted.IsZero() {
				sub := "fresh"
				if !prevTS.IsZero() {
					sub = "re-activation-with-stale-previous-timestamp"
				}
				viol("first-block-after-activation|minted>0|"+sub, fmt.Sprintf("first block after activation minted %s (stored previous timestamp %s, now %d)", minted, prevTS, nowMs))
				bad = true
			}
		default:
			// m* = B·c/100·Δ/Y as an exact rational, Δ between consecutive block timestamps
			delta := nowMs - prevBlockTime.UnixMilli()
			Y := yearMillis(n.Time)
			num := new(big.Int).Mul(bonded.BigInt(), p.RewardCoefficient.BigInt()) // c scaled 1e18
			num.Mul(num, big.NewInt(delta))
			den := new(big.Int).Mul(big.NewInt(100), new(big.Int).Exp(big.NewInt(10), big.NewInt(18), nil))
			den.Mul(den, big.NewInt(Y))
			mstar := new(big.Rat).SetFrac(num, den)
			// worst-case accumulation of the 18-decimal roundings: 1e-18·B·(c/100 + Δ/Y) (+1 unit)
			eps := new(big.Rat).SetFrac(new(big.Int).Mul(bonded.BigInt(), big.NewInt(1)), new(big.Int).Exp(big.NewInt(10), big.NewInt(18), nil))
			f := new(big.Rat).Add(new(big.Rat).SetFrac(p.RewardCoefficient.BigInt(), den2(100)), new(big.Rat).SetFrac(big.NewInt(delta), big.NewInt(Y)))
			eps.Mul(eps, f)
			bound := new(big.Rat).Add(eps, big.NewRat(1, 1))
			supplyPlus := new(big.Rat).Add(new(big.Rat).SetInt(supplyBefore.BigInt()), mstar)
			maxR := new(big.Rat).SetInt(maxSupply.BigInt())
			distToCap := new(big.Rat).Sub(supplyPlus, maxR)
			nearCap := new(big.Rat).Abs(distToCap).Cmp(bound) <= 0
			crosses := distToCap.Sign() > 0
			okNormal := func() bool {
				d := new(big.Rat).Sub(new(big.Rat).SetInt(minted.BigInt()), mstar)
				return d.Abs(d).Cmp(bound) <= 0 && enabledAfter
			}
			okCap := func() bool {
				rem := maxSupply.Sub(supplyBefore)
				if rem.IsNegative() {
					rem = sdkmath.ZeroInt()
				}
				return minted.Equal(rem) && !enabledAfter
			}
			switch {
			case nearCap:
				regime = "at-cap-boundary"
				if !okNormal() && !okCap() {
					viol("cap-boundary|neither-formula-nor-remainder", fmt.Sprintf("minted %s, m*=%s, remainder=%s", minted, mstar.FloatString(3), maxSupply.Sub(supplyBefore)))
					bad = true
				}
			case crosses:
				regime = "cap"
				if !okCap() {
					viol("cap|minted≠remainder-or-not-switched-off", fmt.Sprintf("minted %s, remainder %s, enabled after=%v", minted, maxSupply.Sub(supplyBefore), enabledAfter))
					bad = true
				}
			default:
				regime = "normal"
				if !okNormal() {
					d := new(big.Rat).Sub(new(big.Rat).SetInt(minted.BigInt()), mstar)
					rel := "high"
					if d.Sign() < 0 {
						rel = "low"
					}
					viol("normal|minted≠formula|"+rel, fmt.Sprintf("minted %s, formula %s (bonded %s, coefficient %s%%, elapsed %d ms, year %d ms), tolerance %s, enabled after=%v", minted, mstar.FloatString(3), bonded, p.RewardCoefficient, delta, Y, bound.FloatString(3), enabledAfter))
					bad = true
				} else {
					// bit-exact against the step-wise 18-decimal evaluation
					sw := sdk.NewDecFromInt(bonded).Mul(p.RewardCoefficient.Quo(sdk.NewDec(100))).Mul(sdk.NewDec(delta).Quo(sdk.NewDec(Y))).RoundInt()
					if sw.Equal(minted) {
						r.Count("bit_exact_vs_stepwise_18dec", 1)
					}
				}
			}
			if n.Supply(vn.Denom).GT(maxSupply) && supplyBefore.LTE(maxSupply) {
				viol("cap|supply-lifted-above-max", fmt.Sprintf("supply %s > max %s", n.Supply(vn.Denom), maxSupply))
				bad = true
			}
		}
		// elapsed is measured between consecutive block timestamps: after a block in which
		// coinomics ran and stayed on, the stored previous timestamp is this block's time
		if enabled && enabledAfter && !bad && !prevTSAfter.Equal(sdkmath.NewInt(nowMs)) {
			viol(regime+"|previous-timestamp-not-advanced", fmt.Sprintf("stored previous timestamp %s after block at %d", prevTSAfter, nowMs))
			bad = true
		}
		r.Count("blocks/"+regime, 1)
		if regime == "normal" || regime == "cap" || regime == "at-cap-boundary" {
			dcl := "dt≥1s"
			if nowMs-prevBlockTime.UnixMilli() < 1000 {
				dcl = "dt<1s"
			} else if nowMs-prevBlockTime.UnixMilli() > 86400000 {
				dcl = "dt>1d"
			}
			r.Nontriv(fmt.Sprintf("%s|%s|%s|%s|coef%s", regime, st.name, scale, dcl, coefClass(p.RewardCoefficient)))
		} else if regime == "first-after-activation" && !prevTS.IsZero() {
			r.Nontriv("re-activation|" + scale)
		}
		ranPrev = enabled && enabledAfter
		prevBlockTime = n.Time
		n.Commit()
		if bad {
			break
		}
	}
	r.Sample(capName, map[string]any{"id": id, "start": st.name, "scale": scale, "trace": trace})
}

func den2(x int64) *big.Int {
	return new(big.Int).Mul(big.NewInt(x), new(big.Int).Exp(big.NewInt(10), big.NewInt(18), nil))
}

func coefClass(c sdk.Dec) string {
	switch {
	case c.IsZero():
		return "0"
	case c.LT(sdk.NewDecWithPrec(1, 6)):
		return "tiny"
	case c.GTE(sdk.NewDec(100)):
		return "≥100"
	default:
		return "normal"
	}
}
