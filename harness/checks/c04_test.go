//go:build verif

package checks

import (
	"bytes"
	"fmt"
	"math/big"

	"testing"
	"time"

	sdkmath "cosmossdk.io/math"
	sdk "github.com/cosmos/cosmos-sdk/types"
	"github.com/cosmos/cosmos-sdk/x/authz"
	stakingtypes "github.com/cosmos/cosmos-sdk/x/staking/types"
	transfertypes "github.com/cosmos/ibc-go/v7/modules/apps/transfer/types"
	clienttypes "github.com/cosmos/ibc-go/v7/modules/core/02-client/types"
	"github.com/ethereum/go-ethereum/accounts/abi"
	"github.com/ethereum/go-ethereum/common"

	ics20pc "github.com/haqq-network/haqq/precompiles/ics20"

	"verif/harness/evmasm"
	"verif/harness/report"
	"verif/harness/vn"
)

func TestC04(t *testing.T) {
	r := report.Start("C04")
	defer r.Finish()
	ng := r.Cases(64, 3200)
	for g := 0; g < ng; g++ {
		id := fmt.Sprintf("seq/%d", g)
		if !r.Want(id, g) {
			continue
		}
		c04Sequence(r, id)
	}
	ni := r.Cases(48, 2400)
	for g := 0; g < ni; g++ {
		id := fmt.Sprintf("ics20/%d", g)
		if !r.Want(id, g) {
			continue
		}
		c04ICS20(r, id)
	}
}

// ownerOf classifies a changed key: whose funds / stake / rewards / withdraw address / grants it is.
func ownerOf(c vn.Change) (owner []byte, what string, negative bool) {
	lp := func(b []byte) []byte { // length-prefixed address at the start of b
		if len(b) < 1 || len(b) < 1+int(b[0]) {
			return nil
		}
		return b[1 : 1+int(b[0])]
	}
	k := c.Key
	switch c.Store {
	case "bank":
		if len(k) > 1 && k[0] == 0x02 {
			a := lp(k[1:])
			if a == nil || !bytes.HasSuffix(k, []byte(vn.Denom)) {
				return nil, "", false
			}
			old, _ := sdkmath.NewIntFromString(string(c.Old))
			nw, _ := sdkmath.NewIntFromString(string(c.New))
			if c.Old == nil {
				old = sdkmath.ZeroInt()
			}
			if c.New == nil {
				nw = sdkmath.ZeroInt()
			}
			return a, "funds", nw.LT(old)
		}
	case "staking":
		if len(k) > 1 && (k[0] == 0x31 || k[0] == 0x32 || k[0] == 0x34) {
			return lp(k[1:]), map[byte]string{0x31: "stake(delegation)", 0x32: "stake(unbonding)", 0x34: "stake(redelegation)"}[k[0]], true
		}
	case "distribution":
		if len(k) > 1 && k[0] == 0x03 {
			return lp(k[1:]), "withdraw-address", true
		}
		if len(k) > 1 && k[0] == 0x04 {
			v := lp(k[1:])
			if v == nil {
				return nil, "", false
			}
			return lp(k[1+1+len(v):]), "pending-rewards", true
		}
	case "authz":
		if len(k) > 1 && k[0] == 0x01 {
			return lp(k[1:]), "grants", true
		}
	}
	return nil, "", false
}

type allowKey struct {
	grantee common.Address
	msg     string
}

// c04Follow: a native grant that the next one or two steps spend through its grantee contract.
type c04Follow struct {
	g    common.Address
	mi   int
	left int
}

type allowVal struct {
	unlimited bool
	limit     sdkmath.Int
	exp       time.Time
	// validators the grant covers: nil = every validator (what the precompile's approve writes on a
	// chain without jailed validators); otherwise the allow list, or everything but the deny list
	vals map[string]bool
	deny bool
}

func (a allowVal) covers(val string) bool {
	if a.vals == nil {
		return true
	}
	if a.deny {
		return !a.vals[val]
	}
	return a.vals[val]
}

func c04Sequence(r *report.R, id string) {
	rng := r.Rand(id)
	e := newPcEnv(uint64(r.Seed), rng)
	n := e.n
	S, T, X := n.Accounts[0], n.Accounts[1], n.Accounts[2] // signer, third party with stake, another signer
	// contracts: C1 -> P ; N1 -> N2 -> P ; D1 -> distribution
	c1, err1 := e.deploy([]evmasm.Step{evmasm.Forward{Kind: evmasm.Call, To: addrStaking, Fail: evmasm.Ignore, Record: 1}}, 5_000_000*stakeUnit/1000)
	n2, err2 := e.deploy([]evmasm.Step{evmasm.Forward{Kind: evmasm.Call, To: addrStaking, Fail: evmasm.Bubble}}, 1000)
	n1, err3 := e.deploy([]evmasm.Step{evmasm.Forward{Kind: evmasm.Call, To: n2, Fail: evmasm.Ignore, Record: 1}}, 1000)
	d1, err4 := e.deploy([]evmasm.Step{evmasm.Forward{Kind: evmasm.Call, To: addrDist, Fail: evmasm.Ignore, Record: 1}}, 1000)
	if err1 != nil || err2 != nil || err3 != nil || err4 != nil {
		r.Note("deploy failed")
		return
	}
	names := e.names(map[string]string{c1.Hex(): "C1", n1.Hex(): "N1", n2.Hex(): "N2", d1.Hex(): "D1"})
	ref := map[allowKey]allowVal{} // grants of S
	msgTypes := []string{stakingDelegateMsg, stakingUndelegateMsg, "/cosmos.staking.v1beta1.MsgBeginRedelegate", stakingCancelMsg}
	grantees := []common.Address{c1, n2, n1}
	var trace []string
	exempt := map[string]bool{}
	for _, m := range []string{"fee_collector", "distribution", "bonded_tokens_pool", "not_bonded_tokens_pool", "evm", "erc20"} {
		exempt[string(vn.ModuleAddr(m))] = true
	}
	// observe compares every tracked grant of S with the authz store
	observe := func(op string) bool {
		for _, g := range grantees {
			for _, mt := range msgTypes {
				auth, exp := n.App.AuthzKeeper.GetAuthorization(n.Ctx(), g.Bytes(), S.Addr, mt)
				rv, ok := ref[allowKey{g, mt}]
				if ok && !rv.exp.After(n.Time) {
					ok = false // expired grants are gone from the reference's point of view
				}
				if auth == nil {
					if ok {
						r.Violation(id, op+"|grant-missing", fmt.Sprintf("grant %s→%s %s should exist (limit %v unlimited %v)", "S", names[g.Hex()], mt, rv.limit, rv.unlimited), trace)
						return false
					}
					continue
				}
				sa, isStake := auth.(*stakingtypes.StakeAuthorization)
				if !ok {
					r.Violation(id, op+"|grant-exists-unexpectedly", fmt.Sprintf("grant S→%s %s exists (%v, exp %v) but the reference has none", names[g.Hex()], mt, auth, exp), trace)
					return false
				}
				if !isStake {
					continue
				}
				if rv.unlimited != (sa.MaxTokens == nil) || (!rv.unlimited && !sa.MaxTokens.Amount.Equal(rv.limit)) {
					r.Violation(id, op+"|grant-limit≠reference", fmt.Sprintf("grant S→%s %s: limit %v, reference limit=%s unlimited=%v", names[g.Hex()], mt, sa.MaxTokens, rv.limit, rv.unlimited), trace)
					return false
				}
			}
		}
		r.Count("grant_state_checks", 1)
		return true
	}
	// call delivers an eth tx from signer to target with data and returns (ok, marker, diff)
	call := func(signer vn.Account, target common.Address, data []byte) (bool, uint64, []vn.Change) {
		before := n.Snapshot(n.Ctx())
		res := n.Deliver(n.EthTx(signer, vn.EthArgs{Nonce: n.EthNonce(signer.Eth), To: &target, Gas: 2_500_000, GasPrice: big.NewInt(1_000_000_000), Data: data}))
		d := vn.Diff(before, n.Snapshot(n.Ctx()))
		ers := vn.EthResult(res)
		if res.Code != 0 || len(ers) != 1 {
			return false, 0, d
		}
		return ers[0].VmError == "", e.slot(target, 1), d
	}
	thirdPartyRule := func(op string, signer vn.Account, caller common.Address, d []vn.Change) bool {
		for _, c := range d {
			o, what, neg := ownerOf(c)
			if o == nil || !neg || exempt[string(o)] {
				continue
			}
			if bytes.Equal(o, signer.Addr) || bytes.Equal(o, caller.Bytes()) {
				continue
			}
			nm := names[common.BytesToAddress(o).Hex()]
			if nm == "" {
				nm = "other"
			}
			r.Violation(id, op+"|third-party-"+what+"-changed:"+nm, fmt.Sprintf("account %s (neither the signer nor the immediate caller %s) had its %s changed: %s", nm, names[caller.Hex()], what, c.String()), trace)
			return false
		}
		r.Count("third_party_rule_checks", 1)
		return true
	}
	pack := func(a abi.ABI, m string, args ...any) []byte {
		bz, err := a.Pack(m, args...)
		vn.Must(err)
		return bz
	}
	steps := 10 + rng.Intn(r.Pick(14, 30))
	var follow *c04Follow
	for s := 0; s < steps; s++ {
		r.Eval(1)
		if rng.Intn(5) == 0 {
			e.nextBlock()
		}
		k := rng.Intn(14)
		if follow != nil {
			k = 4 // the grant just given natively is used at once, through the contract that holds it
		}
		switch {
		case k >= 12: // S grants natively (x/authz MsgGrant) a stake authorization with a narrow validator list
			g := grantees[rng.Intn(len(grantees))]
			mi := rng.Intn(4)
			mt := msgTypes[mi]
			at := []stakingtypes.AuthorizationType{stakingtypes.AuthorizationType_AUTHORIZATION_TYPE_DELEGATE, stakingtypes.AuthorizationType_AUTHORIZATION_TYPE_UNDELEGATE,
				stakingtypes.AuthorizationType_AUTHORIZATION_TYPE_REDELEGATE, stakingtypes.AuthorizationType_AUTHORIZATION_TYPE_CANCEL_UNBONDING_DELEGATION}[mi]
			perm := rng.Perm(3)
			nl := 1 + rng.Intn(2)
			listed := map[string]bool{}
			var list []sdk.ValAddress
			for i := 0; i < nl; i++ {
				list = append(list, n.Vals[perm[i]].ValAddr)
				listed[n.Vals[perm[i]].ValAddr.String()] = true
			}
			deny := rng.Intn(3) == 0
			var lim *sdk.Coin
			nv := allowVal{unlimited: true, vals: listed, deny: deny, exp: n.Time.Add(200 * time.Hour)}
			if rng.Intn(2) == 0 {
				c := sdk.NewCoin(vn.Denom, sdkmath.NewInt(stakeUnit*int64(1+rng.Intn(30))))
				lim = &c
				nv.unlimited, nv.limit = false, c.Amount
			}
			var sa *stakingtypes.StakeAuthorization
			var err error
			if deny {
				sa, err = stakingtypes.NewStakeAuthorization(nil, list, at, lim)
			} else {
				sa, err = stakingtypes.NewStakeAuthorization(list, nil, at, lim)
			}
			if err != nil {
				continue
			}
			exp := nv.exp
			mg, err := authz.NewMsgGrant(S.Addr, sdk.AccAddress(g.Bytes()), sa, &exp)
			if err != nil {
				continue
			}
			res := n.Deliver(n.CosmosTx(vn.CosmosArgs{Msgs: []sdk.Msg{mg}, Gas: 1_000_000, Fee: vn.Coins(1_000_000)}, S))
			trace = append(trace, fmt.Sprintf("S grants natively to %s: %s, %d validators (deny=%v), limit %v ok=%v", names[g.Hex()], mt, nl, deny, lim, res.Code == 0))
			if res.Code == 0 {
				ref[allowKey{g, mt}] = nv
				r.Nontriv(fmt.Sprintf("manage|native-grant|deny=%v|limited=%v", deny, lim != nil))
				r.Count("native_grants_with_validator_list", 1)
				if g != n1 && rng.Intn(4) > 0 {
					follow = &c04Follow{g: g, mi: mi, left: 1 + rng.Intn(2)}
				}
			}
			if !observe("manage:native-grant") {
				return
			}
		case k < 4: // allowance management by S directly
			g := grantees[rng.Intn(len(grantees))]
			nm := 1 + rng.Intn(2)
			var mts []string
			for i := 0; i < nm; i++ {
				mts = append(mts, msgTypes[rng.Intn(len(msgTypes))])
			}
			amt := big.NewInt(stakeUnit * int64(1+rng.Intn(30)))
			var method string
			switch rng.Intn(6) {
			case 0:
				method, amt = "approve", abi.MaxUint256
			case 1:
				method, amt = "approve", big.NewInt(0)
			case 2:
				method = "increaseAllowance"
			case 3:
				method = "decreaseAllowance"
			case 4:
				method = "revoke"
			default:
				method = "approve"
			}
			var data []byte
			if method == "revoke" {
				data = pack(e.abiStaking, "revoke", g, mts)
			} else {
				data = pack(e.abiStaking, method, g, amt, mts)
			}
			ok, _, _ := call(S, addrStaking, data)
			trace = append(trace, fmt.Sprintf("S %s(%s, %s, %v) ok=%v", method, names[g.Hex()], amt, mts, ok))
			if ok {
				exp := n.Time.Add(365 * 24 * time.Hour)
				for _, mt := range mts {
					key := allowKey{g, mt}
					cur, has := ref[key]
					if has && !cur.exp.After(n.Time) {
						has = false
					}
					switch method {
					case "approve":
						switch {
						case amt.Cmp(abi.MaxUint256) == 0:
							ref[key] = allowVal{unlimited: true, exp: exp}
						case amt.Sign() == 0:
							delete(ref, key)
						default:
							ref[key] = allowVal{limit: sdkmath.NewIntFromBigInt(amt), exp: exp}
						}
					case "revoke":
						delete(ref, key)
					case "increaseAllowance":
						if has && !cur.unlimited {
							cur.limit = cur.limit.Add(sdkmath.NewIntFromBigInt(amt))
							ref[key] = cur
						}
					case "decreaseAllowance":
						if has && !cur.unlimited {
							cur.limit = cur.limit.Sub(sdkmath.NewIntFromBigInt(amt))
							ref[key] = cur
						}
					}
				}
				r.Nontriv("manage|" + method)
			}
			if !observe("manage:" + method) {
				return
			}
		case k < 9: // a spend attempt through a contract
			type route struct {
				root, caller common.Address
				name         string
			}
			rt := []route{{c1, c1, "S→C1→P"}, {n1, n2, "S→N1→N2→P"}}[rng.Intn(2)]
			fol := follow
			if fol != nil {
				if fol.g == c1 {
					rt = route{c1, c1, "S→C1→P"}
				} else {
					rt = route{n1, n2, "S→N1→N2→P"}
				}
				if fol.left--; fol.left <= 0 {
					follow = nil
				}
			}
			signer := S
			if fol == nil && rng.Intn(6) == 0 {
				signer = X // someone else drives the contract that holds S's grant
			}
			named := S.Eth
			namedCls := "signer"
			switch rng.Intn(6) {
			case 0:
				named, namedCls = T.Eth, "third-eoa"
			case 1:
				named, namedCls = rt.caller, "caller"
			case 2:
				if signer.Addr.Equals(X.Addr) {
					named, namedCls = S.Eth, "granter-not-signer"
				}
			}
			if signer.Addr.Equals(X.Addr) && namedCls == "signer" {
				named, namedCls = S.Eth, "granter-not-signer"
			}
			mi := rng.Intn(4)
			if fol != nil {
				named, namedCls, mi = S.Eth, "signer", fol.mi
			}
			mt := msgTypes[mi]
			key := allowKey{rt.caller, mt}
			cur, has := ref[key]
			if has && !cur.exp.After(n.Time) {
				has = false
			}
			// amount relative to the limit
			amt := big.NewInt(stakeUnit * int64(1+rng.Intn(4)))
			amtCls := "small"
			if has && !cur.unlimited && rng.Intn(2) == 0 {
				switch rng.Intn(3) {
				case 0:
					amt, amtCls = cur.limit.BigInt(), "=limit"
				case 1:
					amt, amtCls = cur.limit.AddRaw(1).BigInt(), "limit+1"
				default:
					if cur.limit.GT(sdkmath.OneInt()) {
						amt, amtCls = cur.limit.SubRaw(1).BigInt(), "limit-1"
					}
				}
			}
			if amt.Sign() == 0 {
				continue
			}
			dels := n.App.StakingKeeper.GetDelegatorDelegations(n.Ctx(), named.Bytes(), 10)
			val := n.Vals[rng.Intn(3)].ValAddr.String()
			if len(dels) > 0 {
				val = dels[rng.Intn(len(dels))].ValidatorAddress
			}
			var data []byte
			mname := []string{"delegate", "undelegate", "redelegate", "cancelUnbondingDelegation"}[mi]
			switch mi {
			case 0:
				data = pack(e.abiStaking, "delegate", named, val, amt)
			case 1:
				data = pack(e.abiStaking, "undelegate", named, val, amt)
			case 2:
				dst := n.Vals[0].ValAddr.String()
				if dst == val {
					dst = n.Vals[1].ValAddr.String()
				}
				data = pack(e.abiStaking, "redelegate", named, val, dst, amt)
			default:
				h := int64(1)
				if ubds := n.App.StakingKeeper.GetAllUnbondingDelegations(n.Ctx(), named.Bytes()); len(ubds) > 0 && len(ubds[0].Entries) > 0 {
					val, h = ubds[0].ValidatorAddress, ubds[0].Entries[0].CreationHeight
				}
				data = pack(e.abiStaking, "cancelUnbondingDelegation", named, val, amt, big.NewInt(h))
			}
			checkedVal := val // the validator a stake authorization is checked against
			if mi == 2 {
				checkedVal = n.Vals[0].ValAddr.String()
				if checkedVal == val {
					checkedVal = n.Vals[1].ValAddr.String()
				}
			}
			txOK, mark, d := call(signer, rt.root, data)
			succeeded := txOK && mark == 2
			gcls := "absent"
			if has && cur.unlimited {
				gcls = "unlimited"
			} else if has {
				gcls = "limited"
			} else if _, ever := ref[key]; ever {
				gcls = "expired"
			}
			// is there a grant for another type only?
			if !has {
				for _, o := range msgTypes {
					if v, ok := ref[allowKey{rt.caller, o}]; ok && v.exp.After(n.Time) && o != mt {
						gcls = "wrong-type-only"
					}
				}
			}
			trace = append(trace, fmt.Sprintf("%s drives %s: %s(named=%s, %s) grant=%s amt=%s ok=%v", names[signer.Eth.Hex()], rt.name, mname, namedCls, val[len(val)-6:], gcls, amtCls, succeeded))
			op := fmt.Sprintf("%s|%s|named=%s|grant=%s|amt=%s", mname, rt.name, namedCls, gcls, amtCls)
			if !thirdPartyRule(op, signer, rt.caller, d) {
				return
			}
			if succeeded {
				switch namedCls {
				case "signer":
					// caller ≠ signer: needs a live, matching, sufficient grant from the signer
					allowed := has && (cur.unlimited || cur.limit.GTE(sdkmath.NewIntFromBigInt(amt)))
					if allowed && !cur.covers(checkedVal) {
						r.Violation(id, op+"|spent-on-a-validator-the-grant-does-not-cover", fmt.Sprintf("call succeeded for validator %s although the grant's validator list (deny=%v) is %v", checkedVal, cur.deny, cur.vals), trace)
						return
					}
					if !allowed {
						r.Violation(id, op+"|spent-without-sufficient-grant", fmt.Sprintf("call succeeded although the reference allowance is %+v (has=%v) for amount %s", cur, has, amt), trace)
						return
					}
					if !cur.unlimited {
						cur.limit = cur.limit.Sub(sdkmath.NewIntFromBigInt(amt))
						if cur.limit.IsZero() {
							delete(ref, key)
						} else {
							ref[key] = cur
						}
					}
				case "caller":
					// the contract acts on its own funds; the precompile still charges the signer's grant
					if has && !cur.unlimited {
						cur.limit = cur.limit.Sub(sdkmath.NewIntFromBigInt(amt))
						if cur.limit.IsZero() {
							delete(ref, key)
						} else if cur.limit.IsNegative() {
							r.Violation(id, op+"|overspent-grant", "limit went negative", trace)
							return
						} else {
							ref[key] = cur
						}
					}
				default:
					r.Violation(id, op+"|acted-for-a-non-signer-non-caller", "call naming an account that is neither signer nor caller succeeded", trace)
					return
				}
				r.Nontriv(op + "|succeeded")
				r.Count("spends_succeeded", 1)
			} else {
				r.Nontriv(op + "|failed")
				r.Count("spends_failed", 1)
			}
			if !observe("spend:" + mname) {
				return
			}
		case k < 11: // distribution through a contract: no grant needed for the signer, nobody else
			signer := S
			named := S.Eth
			namedCls := "signer"
			switch rng.Intn(4) {
			case 0:
				named, namedCls = T.Eth, "third-eoa"
			case 1:
				named, namedCls = d1, "caller"
			case 2:
				signer, named, namedCls = X, S.Eth, "other-signer's-target"
			}
			dels := n.App.StakingKeeper.GetDelegatorDelegations(n.Ctx(), named.Bytes(), 10)
			val := n.Vals[0].ValAddr.String()
			if len(dels) > 0 {
				val = dels[rng.Intn(len(dels))].ValidatorAddress
			}
			var data []byte
			var mname string
			switch rng.Intn(3) {
			case 0:
				mname, data = "withdrawDelegatorRewards", pack(e.abiDist, "withdrawDelegatorRewards", named, val)
			case 1:
				mname, data = "claimRewards", pack(e.abiDist, "claimRewards", named, uint32(5))
			default:
				mname, data = "setWithdrawAddress", pack(e.abiDist, "setWithdrawAddress", named, n.Accounts[7].Addr.String())
			}
			txOK, mark, d := call(signer, d1, data)
			succeeded := txOK && mark == 2
			op := fmt.Sprintf("%s|%s→D1→P|named=%s", mname, names[signer.Eth.Hex()], namedCls)
			trace = append(trace, op+fmt.Sprintf(" ok=%v", succeeded))
			if !thirdPartyRule(op, signer, d1, d) {
				return
			}
			if succeeded && namedCls != "signer" && namedCls != "caller" {
				r.Violation(id, op+"|acted-for-a-non-signer-non-caller", "distribution call for a third account succeeded", trace)
				return
			}
			if succeeded {
				r.Nontriv(op + "|succeeded")
				r.Count("spends_succeeded", 1)
			} else {
				r.Nontriv(op + "|failed")
			}
		default: // let grants expire
			if rng.Intn(3) == 0 {
				n.EndBlock()
				n.Commit()
				n.BeginBlock(vn.BlockOpts{Dt: 366 * 24 * time.Hour})
				trace = append(trace, "time +366d")
				if !observe("expiry") {
					return
				}
			}
		}
	}
	n.EndBlock()
	n.Commit()

	r.Sample("sequence", map[string]any{"id": id, "ops": len(trace)})
}

// ---- ICS-20 allowances -----------------------------------------------------------

type icsAlloc struct {
	port, channel string
	limits        map[string]sdkmath.Int
}

// c04ICS20: approve / increaseAllowance / decreaseAllowance / revoke of the ICS-20 precompile
// against a reference list of allocations, and real transfers through a granted contract that
// spend the allowance (channels are two loopback pairs over connection-localhost).
func c04ICS20(r *report.R, id string) {
	rng := r.Rand(id)
	cfg := vn.Config{Seed: uint64(r.Seed), NumVals: 1, NumAccounts: 4, ExtraBalances: map[string]sdk.Coins{}}
	_, accs0 := vn.Keys(cfg)
	cfg.ExtraBalances[accs0[0].Addr.String()] = sdk.NewCoins(sdk.NewInt64Coin("uatom", 1_000_000_000))
	n := vn.New(cfg)
	S := n.Accounts[0]
	pcs := n.App.EvmKeeper.Precompiles(addrICS20)
	ics := pcs[addrICS20].(*ics20pc.Precompile).ABI
	n.BeginBlock(vn.BlockOpts{})
	// real channels: two loopback pairs (channel-0/1 and channel-2/3) over connection-localhost
	channels := []string{"channel-0", "channel-1", "channel-2"}
	for i := 0; i < 2; i++ {
		if _, err := n.OpenLoopback(n.Accounts[3]); err != nil {
			r.Inconcl("cannot open loopback channels: %v", err)
			return
		}
	}
	// grantees: an ordinary account, and two contracts that forward their calldata to the
	// precompile (only a contract called by the grant's owner can spend an ICS-20 allowance)
	fwd := func() common.Address {
		a, res := n.Deploy(n.Accounts[1], evmasm.InitCode(nil, []evmasm.Step{evmasm.Forward{Kind: evmasm.Call, To: addrICS20, Fail: evmasm.Ignore, Record: 1}}), nil)
		if res.Code != 0 {
			return common.Address{}
		}
		return a
	}
	gContract, gStranger := fwd(), fwd()
	grantees := []common.Address{vn.DetAccount(1, "g", 1).Eth, gContract}
	denoms := []string{vn.Denom, "uatom"}
	ref := map[common.Address][]icsAlloc{}
	var trace []string
	type abiCoin struct {
		Denom  string
		Amount *big.Int
	}
	type abiAlloc struct {
		SourcePort    string
		SourceChannel string
		SpendLimit    []abiCoin
		AllowList     []string
	}
	call := func(data []byte) bool {
		to := addrICS20
		res := n.Deliver(n.EthTx(S, vn.EthArgs{Nonce: n.EthNonce(S.Eth), To: &to, Gas: 1_500_000, GasPrice: big.NewInt(1_000_000_000), Data: data}))
		ers := vn.EthResult(res)
		return res.Code == 0 && len(ers) == 1 && ers[0].VmError == ""
	}
	compare := func(op string) bool {
		for _, g := range grantees {
			auth, _ := n.App.AuthzKeeper.GetAuthorization(n.Ctx(), g.Bytes(), S.Addr, ics20pc.TransferMsgURL)
			want, has := ref[g]
			if auth == nil {
				if has {
					r.Violation(id, op+"|ics20-grant-missing", "grant should exist", trace)
					return false
				}
				continue
			}
			ta, ok := auth.(*transfertypes.TransferAuthorization)
			if !ok || !has {
				r.Violation(id, op+"|ics20-grant-exists-unexpectedly", fmt.Sprintf("%v", auth), trace)
				return false
			}
			if len(ta.Allocations) != len(want) {
				r.Violation(id, op+"|ics20-allocation-count", fmt.Sprintf("stored %d allocations, reference %d", len(ta.Allocations), len(want)), trace)
				return false
			}
			for i, a := range ta.Allocations {
				w := want[i]
				if a.SourcePort != w.port || a.SourceChannel != w.channel {
					r.Violation(id, op+"|ics20-allocation-order/identity", fmt.Sprintf("allocation %d is %s/%s, reference %s/%s", i, a.SourcePort, a.SourceChannel, w.port, w.channel), trace)
					return false
				}
				for _, d := range denoms {
					got := a.SpendLimit.AmountOf(d)
					wl, okd := w.limits[d]
					if !okd {
						wl = sdkmath.ZeroInt()
					}
					if !got.Equal(wl) {
						r.Violation(id, op+"|ics20-limit≠reference", fmt.Sprintf("allocation %d (%s/%s) %s: stored limit %s, reference %s (allocations stored: %v)", i, a.SourcePort, a.SourceChannel, d, got, wl, ta.Allocations), trace)
						return false
					}
				}
			}
		}
		r.Count("ics20_grant_state_checks", 1)
		return true
	}
	steps := 8 + rng.Intn(r.Pick(14, 30))
	for s := 0; s < steps; s++ {
		r.Eval(1)
		g := grantees[rng.Intn(len(grantees))]
		cur, has := ref[g]
		switch k := rng.Intn(14); {
		case k >= 10: // the owner calls a contract that spends (or tries to spend) the allowance by a real transfer
			spender, granted := gContract, true
			if rng.Intn(4) == 0 {
				spender, granted = gStranger, false
			}
			cur, has := ref[spender]
			ch := channels[rng.Intn(len(channels))]
			d := denoms[rng.Intn(len(denoms))]
			if len(cur) > 0 && rng.Intn(4) > 0 {
				// aim at something the grant lists
				a := cur[rng.Intn(len(cur))]
				ch = a.channel
				var listed []string
				for _, dd := range denoms {
					if _, ok := a.limits[dd]; ok {
						listed = append(listed, dd)
					}
				}
				if len(listed) > 0 {
					d = listed[rng.Intn(len(listed))]
				}
			}
			idx := -1
			for i, a := range cur {
				if a.port == "transfer" && a.channel == ch {
					idx = i
					break
				}
			}
			amt := sdkmath.NewInt(int64(rng.Intn(600) + 1))
			if idx >= 0 {
				if l, ok := cur[idx].limits[d]; ok {
					switch rng.Intn(5) {
					case 0:
						amt = l // exactly the limit
					case 1:
						amt = l.AddRaw(1) // one more than granted
					case 2, 3:
						amt = sdkmath.NewInt(rng.Int63n(l.Int64()) + 1) // within the limit
					}
				}
			}
			recv := n.Accounts[2].Addr.String()
			data, err := ics.Pack("transfer", "transfer", ch, d, amt.BigInt(), S.Eth, recv, clienttypes.NewHeight(1, 10_000_000), uint64(0), "")
			if err != nil {
				r.Note("pack transfer: %v", err)
				continue
			}
			balBefore := n.Balance(S.Addr, d)
			feeBefore := n.Balance(S.Addr, vn.Denom)
			res := n.Deliver(n.EthTx(S, vn.EthArgs{Nonce: n.EthNonce(S.Eth), To: &spender, Gas: 1_500_000, GasPrice: big.NewInt(1_000_000_000), Data: data}))
			ers := vn.EthResult(res)
			if res.Code != 0 || len(ers) != 1 || ers[0].VmError != "" {
				r.Note("spend tx failed at top level: %.80s", res.Log)
				continue
			}
			mark := n.App.EvmKeeper.GetState(n.Ctx(), spender, common.BigToHash(big.NewInt(1))).Big().Uint64()
			ok := mark == 2
			wantOK := granted && has && idx >= 0
			pos := "no-such-allocation"
			if wantOK {
				pos = fmt.Sprintf("allocation#%d-of-%d", idx, len(cur))
				l, okd := cur[idx].limits[d]
				switch {
				case !okd:
					wantOK, pos = false, pos+",denom-not-granted"
				case l.LT(amt):
					wantOK, pos = false, pos+",over-limit"
				case l.Equal(amt):
					pos += ",exactly-limit"
				}
			}
			if !granted {
				pos = "contract-without-grant"
			}
			trace = append(trace, fmt.Sprintf("spend via %s: transfer(%s, %s%s) [%s] ok=%v", spender.Hex()[:8], ch, amt, d, pos, ok))
			moved := balBefore.Sub(n.Balance(S.Addr, d))
			if d == vn.Denom {
				// fee: gasUsed × price, read from the response
				moved = feeBefore.Sub(n.Balance(S.Addr, vn.Denom)).Sub(sdkmath.NewIntFromUint64(ers[0].GasUsed).MulRaw(1_000_000_000))
			}
			if ok && !wantOK {
				r.Violation(id, "ics20-transfer|"+pos+"|spent-beyond-grant", fmt.Sprintf("a contract moved %s%s of the owner over %s although the reference grant does not cover it", amt, d, ch), trace)
				return
			}
			if !ok && !moved.IsZero() {
				r.Violation(id, "ics20-transfer|"+pos+"|rejected-but-coins-moved", fmt.Sprintf("the precompile call failed but the owner's %s balance changed by %s", d, moved), trace)
				return
			}
			if ok {
				if !moved.Equal(amt) {
					r.Violation(id, "ics20-transfer|"+pos+"|moved≠amount", fmt.Sprintf("transfer of %s%s moved %s", amt, d, moved), trace)
					return
				}
				l := cur[idx].limits[d]
				if l.Sub(amt).IsPositive() {
					cur[idx].limits[d] = l.Sub(amt)
				} else {
					delete(cur[idx].limits, d)
				}
				if len(cur[idx].limits) == 0 {
					cur = append(cur[:idx:idx], cur[idx+1:]...)
				}
				if len(cur) == 0 {
					delete(ref, spender)
				} else {
					ref[spender] = cur
				}
				r.Count("ics20_transfers_within_grant", 1)
				r.Nontriv("ics20|transfer|" + pos)
			} else {
				r.Count("ics20_transfers_rejected", 1)
				r.Nontriv("ics20|transfer-rejected|" + pos)
			}
		case k < 3 || !has: // approve a fresh allocation list (several allocations may share the port)
			na := 1 + rng.Intn(3)
			var allocs []abiAlloc
			var nw []icsAlloc
			perm := rng.Perm(len(channels))
			for i := 0; i < na; i++ {
				lim := map[string]sdkmath.Int{}
				var coins []abiCoin
				for _, d := range denoms {
					if rng.Intn(3) > 0 {
						a := int64(rng.Intn(1000) + 1)
						lim[d] = sdkmath.NewInt(a)
					}
				}
				if len(lim) == 0 {
					lim[vn.Denom] = sdkmath.NewInt(5)
				}
				// coins must be sorted by denom
				for _, d := range []string{vn.Denom, "uatom"} {
					if v, ok := lim[d]; ok {
						coins = append(coins, abiCoin{d, v.BigInt()})
					}
				}
				allocs = append(allocs, abiAlloc{"transfer", channels[perm[i]], coins, nil})
				nw = append(nw, icsAlloc{"transfer", channels[perm[i]], lim})
			}
			data, err := ics.Pack("approve", g, allocs)
			if err != nil {
				r.Note("pack approve: %v", err)
				continue
			}
			ok := call(data)
			trace = append(trace, fmt.Sprintf("approve(%s, %d allocations) ok=%v", g.Hex()[:8], na, ok))
			if ok {
				ref[g] = nw
				r.Nontriv(fmt.Sprintf("ics20|approve|allocs%d", na))
			}
		case k < 5:
			data, _ := ics.Pack("revoke", g)
			ok := call(data)
			trace = append(trace, fmt.Sprintf("revoke(%s) ok=%v", g.Hex()[:8], ok))
			if ok {
				delete(ref, g)
				r.Nontriv("ics20|revoke")
			}
		default:
			inc := k < 8
			ch := channels[rng.Intn(len(channels))]
			d := denoms[rng.Intn(len(denoms))]
			amt := sdkmath.NewInt(int64(rng.Intn(400) + 1))
			// reference semantics: the first allocation on (port, channel); it must list the denom
			idx := -1
			for i, a := range cur {
				if a.port == "transfer" && a.channel == ch {
					idx = i
					break
				}
			}
			pos := "no-such-allocation"
			if idx >= 0 {
				pos = fmt.Sprintf("allocation#%d-of-%d", idx, len(cur))
			}
			method := "decreaseAllowance"
			if inc {
				method = "increaseAllowance"
			}
			if !inc && idx >= 0 && rng.Intn(3) == 0 {
				if l, ok := cur[idx].limits[d]; ok {
					amt = l // exactly to zero
				}
			}
			data, _ := ics.Pack(method, g, "transfer", ch, d, amt.BigInt())
			ok := call(data)
			trace = append(trace, fmt.Sprintf("%s(%s, transfer/%s, %s, %s) [%s] ok=%v", method, g.Hex()[:8], ch, d, amt, pos, ok))
			wantOK := idx >= 0
			if wantOK {
				l, okd := cur[idx].limits[d]
				if !okd {
					wantOK = false
				} else if !inc && l.LT(amt) {
					wantOK = false
				}
			}
			if ok && !wantOK {
				r.Violation(id, method+"|"+pos+"|accepted-without-matching-allocation", "allowance change accepted although no allocation for that port/channel/denom can cover it", trace)
				return
			}
			if ok {
				l := cur[idx].limits[d]
				if inc {
					cur[idx].limits[d] = l.Add(amt)
				} else if l.Sub(amt).IsPositive() {
					cur[idx].limits[d] = l.Sub(amt)
				} else {
					delete(cur[idx].limits, d)
				}
				ref[g] = cur
				r.Nontriv(fmt.Sprintf("ics20|%s|%s", method, pos))
			}
		}
		if !compare("ics20") {
			return
		}
	}
	n.EndBlock()
	n.Commit()
}
