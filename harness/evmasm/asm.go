//go:build verif

// Package evmasm is a tiny EVM assembler for straight-line call-tree programs: the
// harness has no Solidity compiler, so contract programs are generated as frames of steps
// (calls of every kind into contracts / precompiles / EOAs, storage writes, logs, value
// transfers, creates, self-destructs, reverts) and compiled to bytecode here.
package evmasm

import (
	"encoding/binary"
	"math/big"

	"github.com/ethereum/go-ethereum/common"
	"github.com/ethereum/go-ethereum/core/vm"
)

type Asm struct {
	code   []byte
	labels map[string]int
	fix    []fixup
	nlabel int
}

type fixup struct {
	pos   int
	label string
}

func New() *Asm { return &Asm{labels: map[string]int{}} }

func (a *Asm) Op(ops ...vm.OpCode) *Asm {
	for _, o := range ops {
		a.code = append(a.code, byte(o))
	}
	return a
}

// Push pushes a big-endian value with the smallest PUSHn (PUSH1 0 for zero).
func (a *Asm) Push(v *big.Int) *Asm {
	b := v.Bytes()
	if len(b) == 0 {
		b = []byte{0}
	}
	if len(b) > 32 {
		panic("push too wide")
	}
	a.code = append(a.code, byte(vm.PUSH1)+byte(len(b)-1))
	a.code = append(a.code, b...)
	return a
}

func (a *Asm) PushU(v uint64) *Asm            { return a.Push(new(big.Int).SetUint64(v)) }
func (a *Asm) PushAddr(x common.Address) *Asm { return a.PushBytes(x.Bytes()) }

func (a *Asm) PushBytes(b []byte) *Asm {
	if len(b) == 0 || len(b) > 32 {
		panic("bad push size")
	}
	a.code = append(a.code, byte(vm.PUSH1)+byte(len(b)-1))
	a.code = append(a.code, b...)
	return a
}

func (a *Asm) NewLabel() string {
	a.nlabel++
	return "L" + string(rune('0'+a.nlabel/100%10)) + string(rune('0'+a.nlabel/10%10)) + string(rune('0'+a.nlabel%10))
}

func (a *Asm) PushLabel(l string) *Asm {
	a.code = append(a.code, byte(vm.PUSH2), 0, 0)
	a.fix = append(a.fix, fixup{len(a.code) - 2, l})
	return a
}

func (a *Asm) Label(l string) *Asm {
	a.labels[l] = len(a.code)
	a.code = append(a.code, byte(vm.JUMPDEST))
	return a
}

func (a *Asm) Bytes() []byte {
	out := append([]byte{}, a.code...)
	for _, f := range a.fix {
		p, ok := a.labels[f.label]
		if !ok {
			panic("undefined label " + f.label)
		}
		binary.BigEndian.PutUint16(out[f.pos:], uint16(p))
	}
	return out
}

// MemStore writes data to memory starting at offset 0 (32-byte chunks via MSTORE).
func (a *Asm) MemStore(data []byte) *Asm {
	for off := 0; off < len(data); off += 32 {
		chunk := make([]byte, 32)
		copy(chunk, data[off:])
		a.PushBytes(chunk).PushU(uint64(off)).Op(vm.MSTORE)
	}
	return a
}

// Deployer wraps runtime code in init code that returns it.
func Deployer(runtime []byte) []byte {
	a := New()
	// PUSH len; DUP1; PUSH offset; PUSH 0; CODECOPY; PUSH 0; RETURN
	a.PushU(uint64(len(runtime))).Op(vm.DUP1)
	a.PushLabelRaw()
	a.PushU(0).Op(vm.CODECOPY).PushU(0).Op(vm.RETURN)
	init := a.code
	// patch the offset (PUSH2 placeholder) to len(init)
	for i := 0; i+2 < len(init); i++ {
		if init[i] == byte(vm.PUSH2) && init[i+1] == 0xff && init[i+2] == 0xff {
			binary.BigEndian.PutUint16(init[i+1:], uint16(len(init)))
		}
	}
	return append(init, runtime...)
}

func (a *Asm) PushLabelRaw() *Asm {
	a.code = append(a.code, byte(vm.PUSH2), 0xff, 0xff)
	return a
}

// ---- frames -------------------------------------------------------------------

type CallKind int

const (
	Call CallKind = iota
	StaticCall
	DelegateCall
	CallCode
)

func (k CallKind) String() string {
	return [...]string{"CALL", "STATICCALL", "DELEGATECALL", "CALLCODE"}[k]
}

type OnFail int

const (
	Ignore OnFail = iota // failure of the callee is swallowed (the parent "catches" it)
	Bubble               // the parent reverts too
)

// Step is one action of a frame.
type Step interface{ emit(a *Asm) }

type CallStep struct {
	Kind  CallKind
	To    common.Address
	Value *big.Int
	Gas   uint64 // 0 = all remaining gas
	Data  []byte
	Fail  OnFail
	// Record, when non-zero, stores the call's success flag (1/0) + 1 in this storage slot
	// so that a monitor can read afterwards whether the call succeeded (2) or failed (1).
	Record uint64
}

type SStore struct{ Slot, Val uint64 }
type Log struct{ Topic uint64 }
type Transfer struct {
	To    common.Address
	Value *big.Int
}
type Revert struct{}
type Invalid struct{}
type Stop struct{}
type SelfDestruct struct{ To common.Address }
type BurnGas struct{ Loops uint64 } // consumes gas in a loop (used to run a frame out of gas)
type Create struct {
	Init  []byte
	Value *big.Int
	Fail  OnFail
}

func (s CallStep) emit(a *Asm) {
	a.MemStore(s.Data)
	// stack for CALL: gas to value argsOffset argsSize retOffset retSize (pushed in reverse)
	a.PushU(0).PushU(0).PushU(uint64(len(s.Data))).PushU(0)
	if s.Kind == Call || s.Kind == CallCode {
		v := s.Value
		if v == nil {
			v = new(big.Int)
		}
		a.Push(v)
	}
	a.PushAddr(s.To)
	if s.Gas == 0 {
		a.Op(vm.GAS)
	} else {
		a.PushU(s.Gas)
	}
	switch s.Kind {
	case Call:
		a.Op(vm.CALL)
	case StaticCall:
		a.Op(vm.STATICCALL)
	case DelegateCall:
		a.Op(vm.DELEGATECALL)
	case CallCode:
		a.Op(vm.CALLCODE)
	}
	if s.Record != 0 {
		a.Op(vm.DUP1).PushU(1).Op(vm.ADD).PushU(s.Record).Op(vm.SSTORE)
	}
	failCheck(a, s.Fail)
}

func failCheck(a *Asm, f OnFail) {
	if f == Bubble {
		ok := a.NewLabel()
		a.PushLabel(ok).Op(vm.JUMPI) // jump if success (non-zero)
		a.PushU(0).PushU(0).Op(vm.REVERT)
		a.Label(ok)
	} else {
		a.Op(vm.POP)
	}
}

func (s SStore) emit(a *Asm) { a.PushU(s.Val).PushU(s.Slot).Op(vm.SSTORE) }
func (s Log) emit(a *Asm)    { a.PushU(s.Topic).PushU(0).PushU(0).Op(vm.LOG1) }
func (s Transfer) emit(a *Asm) {
	CallStep{Kind: Call, To: s.To, Value: s.Value, Fail: Bubble}.emit(a)
}
func (Revert) emit(a *Asm)  { a.PushU(0).PushU(0).Op(vm.REVERT) }
func (Invalid) emit(a *Asm) { a.Op(vm.INVALID) }
func (Stop) emit(a *Asm)    { a.Op(vm.STOP) }
func (s SelfDestruct) emit(a *Asm) {
	a.PushAddr(s.To).Op(vm.SELFDESTRUCT)
}
func (s BurnGas) emit(a *Asm) {
	// counter loop: PUSH n; loop: JUMPDEST; PUSH1 1; SWAP1; SUB; DUP1; PUSH loop; JUMPI; POP
	l := a.NewLabel()
	a.PushU(s.Loops).Label(l).PushU(1).Op(vm.SWAP1, vm.SUB, vm.DUP1).PushLabel(l).Op(vm.JUMPI, vm.POP)
}
func (s Create) emit(a *Asm) {
	a.MemStore(s.Init)
	v := s.Value
	if v == nil {
		v = new(big.Int)
	}
	a.PushU(uint64(len(s.Init))).PushU(0).Push(v).Op(vm.CREATE)
	failCheck(a, s.Fail)
}

// Runtime compiles steps to runtime bytecode (an implicit STOP ends it).
func Runtime(steps ...Step) []byte {
	a := New()
	for _, s := range steps {
		s.emit(a)
	}
	a.Op(vm.STOP)
	return a.Bytes()
}

// InitCode compiles a constructor that runs ctor steps and then deploys runtime steps.
func InitCode(ctor []Step, runtime []Step) []byte {
	a := New()
	for _, s := range ctor {
		s.emit(a)
	}
	pre := a.Bytes()
	rt := Runtime(runtime...)
	// labels inside pre are absolute and stay valid because pre comes first
	d := New()
	d.code = append(d.code, pre...)
	d.PushU(uint64(len(rt))).Op(vm.DUP1)
	d.PushLabelRaw()
	d.PushU(0).Op(vm.CODECOPY).PushU(0).Op(vm.RETURN)
	init := d.code
	for i := len(pre); i+2 < len(init); i++ {
		if init[i] == byte(vm.PUSH2) && init[i+1] == 0xff && init[i+2] == 0xff {
			binary.BigEndian.PutUint16(init[i+1:], uint16(len(init)))
		}
	}
	return append(init, rt...)
}

// Forward calls To with the frame's own calldata (copied to memory at 0).
type Forward struct {
	Kind   CallKind
	To     common.Address
	Value  *big.Int
	Gas    uint64
	Fail   OnFail
	Record uint64
}

func (s Forward) emit(a *Asm) {
	a.Op(vm.CALLDATASIZE).PushU(0).PushU(0).Op(vm.CALLDATACOPY)
	a.PushU(0).PushU(0).Op(vm.CALLDATASIZE).PushU(0)
	if s.Kind == Call || s.Kind == CallCode {
		v := s.Value
		if v == nil {
			v = new(big.Int)
		}
		a.Push(v)
	}
	a.PushAddr(s.To)
	if s.Gas == 0 {
		a.Op(vm.GAS)
	} else {
		a.PushU(s.Gas)
	}
	switch s.Kind {
	case Call:
		a.Op(vm.CALL)
	case StaticCall:
		a.Op(vm.STATICCALL)
	case DelegateCall:
		a.Op(vm.DELEGATECALL)
	case CallCode:
		a.Op(vm.CALLCODE)
	}
	if s.Record != 0 {
		a.Op(vm.DUP1).PushU(1).Op(vm.ADD).PushU(s.Record).Op(vm.SSTORE)
	}
	failCheck(a, s.Fail)
}

// Guard makes the frame a plain value receiver when called with empty calldata: the steps
// after it only run when calldata is non-empty.
type Guard struct{}

func (Guard) emit(a *Asm) {
	l := a.NewLabel()
	a.Op(vm.CALLDATASIZE).PushLabel(l).Op(vm.JUMPI, vm.STOP).Label(l)
}

// Raw emits literal bytecode.
type Raw struct{ Code []byte }

func (s Raw) emit(a *Asm) { a.code = append(a.code, s.Code...) }

// IfCalldataSize runs Then and stops when the frame was called with exactly N bytes of calldata;
// otherwise execution continues with the steps after it.
type IfCalldataSize struct {
	N    uint64
	Then []Step
}

func (s IfCalldataSize) emit(a *Asm) {
	skip := a.NewLabel()
	a.PushU(s.N).Op(vm.CALLDATASIZE, vm.EQ, vm.ISZERO).PushLabel(skip).Op(vm.JUMPI)
	for _, t := range s.Then {
		t.emit(a)
	}
	a.Op(vm.STOP).Label(skip)
}
