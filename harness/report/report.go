//go:build verif

// Package report collects what a monitor actually observed in one shard process and
// writes it to a shard result file; /verif/check merges the shards into the evidence
// file, maps violations to known findings and decides the exit code.
package report

import (
	"encoding/json"
	"fmt"
	"hash/fnv"
	"math/rand"
	"os"
	"path/filepath"
	"sort"
	"strconv"
	"sync"
	"time"
)

type Violation struct {
	Signature string `json:"signature"`
	What      string `json:"what"`
	Case      string `json:"case"`
	Replay    string `json:"replay"`
	Detail    any    `json:"detail,omitempty"`
}

type Shard struct {
	Property     string         `json:"property"`
	Tier         string         `json:"tier"`
	Seed         int64          `json:"seed"`
	Shard        int            `json:"shard"`
	NShards      int            `json:"nshards"`
	Evaluations  int            `json:"evaluations"`
	Nontrivial   map[string]int `json:"nontrivial"`
	Counters     map[string]int `json:"counters"`
	Samples      []any          `json:"samples"`
	Violations   []Violation    `json:"violations"`
	Inconclusive []string       `json:"inconclusive"`
	Notes        []string       `json:"notes"`
	WallS        float64        `json:"wall_s"`
	Done         bool           `json:"done"`
}

type R struct {
	mu sync.Mutex
	Shard
	out        string
	replayCase string
	replayDir  string
	start      time.Time
	maxSamples int
	sampleSeen map[string]int
}

func envInt(name string, def int64) int64 {
	if v := os.Getenv(name); v != "" {
		if i, err := strconv.ParseInt(v, 10, 64); err == nil {
			return i
		}
	}
	return def
}

// Start reads the run parameters from the environment.
func Start(prop string) *R {
	r := &R{start: time.Now(), maxSamples: 12, sampleSeen: map[string]int{}}
	r.Property = prop
	r.Tier = os.Getenv("VERIF_TIER")
	if r.Tier == "" {
		r.Tier = "quick"
	}
	r.Seed = envInt("VERIF_SEED", 1)
	r.Shard.Shard = int(envInt("VERIF_SHARD", 0))
	r.NShards = int(envInt("VERIF_NSHARDS", 1))
	r.Nontrivial = map[string]int{}
	r.Counters = map[string]int{}
	r.out = os.Getenv("VERIF_OUT")
	r.replayDir = os.Getenv("VERIF_REPLAY_DIR")
	if r.replayDir == "" {
		root := os.Getenv("VERIF_ROOT")
		if root == "" {
			root = "/verif"
		}
		r.replayDir = root + "/replays/" + prop
	}
	if f := os.Getenv("VERIF_REPLAY"); f != "" {
		bz, err := os.ReadFile(f)
		if err != nil {
			panic(err)
		}
		var rp struct {
			Property string `json:"property"`
			Tier     string `json:"tier"`
			Seed     int64  `json:"seed"`
			Case     string `json:"case"`
		}
		if err := json.Unmarshal(bz, &rp); err != nil {
			panic(err)
		}
		r.Tier, r.Seed, r.replayCase = rp.Tier, rp.Seed, rp.Case
		r.NShards, r.Shard.Shard = 1, 0
	}
	return r
}

func (r *R) Thorough() bool     { return r.Tier == "thorough" }
func (r *R) Replaying() bool    { return r.replayCase != "" }
func (r *R) ReplayCase() string { return r.replayCase }

// Pick returns q in the quick tier and t in the thorough tier.
// Cases is Pick for the number of cases of a family: the thorough figure is multiplied by the
// property's thorough scale (plan.json "thorough_scale", passed in VERIF_THOROUGH_SCALE).
func (r *R) Cases(q, t int) int {
	if r.Thorough() {
		if sc := envInt("VERIF_THOROUGH_SCALE", 1); sc > 1 {
			return t * int(sc)
		}
		return t
	}
	return q
}

func (r *R) Pick(q, t int) int {
	if r.Thorough() {
		return t
	}
	return q
}

// Want decides whether this shard executes the case (caseID, idx). In replay mode only
// the recorded case runs.
func (r *R) Want(caseID string, idx int) bool {
	if r.replayCase != "" {
		return caseID == r.replayCase
	}
	return idx%r.NShards == r.Shard.Shard
}

// Rand returns the PRNG of a case: a pure function of (seed, caseID).
func (r *R) Rand(caseID string) *rand.Rand {
	h := fnv.New64a()
	h.Write([]byte(caseID))
	return rand.New(rand.NewSource(int64(h.Sum64()) ^ (r.Seed * 0x5851F42D4C957F2D)))
}

func (r *R) Eval(n int) {
	r.mu.Lock()
	r.Evaluations += n
	r.mu.Unlock()
}

// Nontriv records a case that is non-trivial by the property's rule under its
// distinctness key.
func (r *R) Nontriv(key string) {
	r.mu.Lock()
	r.Nontrivial[key]++
	r.mu.Unlock()
}

func (r *R) Count(name string, n int) {
	r.mu.Lock()
	r.Counters[name] += n
	r.mu.Unlock()
}

// Sample keeps up to a few samples per class.
func (r *R) Sample(class string, s any) {
	r.mu.Lock()
	defer r.mu.Unlock()
	if r.sampleSeen[class] >= 2 || len(r.Samples) >= r.maxSamples {
		return
	}
	r.sampleSeen[class]++
	r.Samples = append(r.Samples, map[string]any{"class": class, "case": s})
}

func (r *R) Note(format string, a ...any) {
	r.mu.Lock()
	r.Notes = append(r.Notes, fmt.Sprintf(format, a...))
	r.mu.Unlock()
}

func (r *R) Inconcl(format string, a ...any) {
	r.mu.Lock()
	r.Inconclusive = append(r.Inconclusive, fmt.Sprintf(format, a...))
	r.mu.Unlock()
}

// Violation records a violation and writes its replay file.
func (r *R) Violation(caseID, signature, what string, detail any) {
	r.mu.Lock()
	defer r.mu.Unlock()
	// keep at most 3 witnesses per signature
	cnt := 0
	for _, v := range r.Violations {
		if v.Signature == signature {
			cnt++
		}
	}
	r.Counters["violations_observed"]++
	if cnt >= 3 {
		return
	}
	h := fnv.New32a()
	h.Write([]byte(caseID + signature))
	name := fmt.Sprintf("%s-%d-%08x.json", r.Tier, r.Seed, h.Sum32())
	path := filepath.Join(r.replayDir, name)
	_ = os.MkdirAll(r.replayDir, 0o755)
	bz, _ := json.MarshalIndent(map[string]any{
		"property": r.Property, "tier": r.Tier, "seed": r.Seed, "case": caseID,
		"signature": signature, "what": what, "detail": detail,
	}, "", " ")
	_ = os.WriteFile(path, bz, 0o644)
	r.Violations = append(r.Violations, Violation{Signature: signature, What: what, Case: caseID, Replay: path, Detail: detail})
	if r.replayCase != "" {
		fmt.Printf("REPLAY-WITNESS property=%s signature=%q\n  %s\n  detail=%s\n", r.Property, signature, what, string(bz))
	}
}

// Finish writes the shard file. It must be called once, at the end.
func (r *R) Finish() {
	// called as `defer r.Finish()`: a panic of the monitor or of the code under test ends the
	// shard; what was observed so far is kept, the run is marked inconclusive, the panic goes on
	if rec := recover(); rec != nil {
		r.mu.Lock()
		r.Inconclusive = append(r.Inconclusive, fmt.Sprintf("shard %d panicked: %.300v", r.Shard.Shard, rec))
		r.mu.Unlock()
		r.finish(false)
		panic(rec)
	}
	r.finish(true)
}

func (r *R) finish(done bool) {
	r.mu.Lock()
	defer r.mu.Unlock()
	r.WallS = time.Since(r.start).Seconds()
	r.Done = done
	sort.Strings(r.Notes)
	if r.out == "" {
		bz, _ := json.MarshalIndent(r.Shard, "", " ")
		fmt.Println(string(bz))
		return
	}
	_ = os.MkdirAll(r.out, 0o755)
	bz, _ := json.Marshal(r.Shard)
	tmp := filepath.Join(r.out, fmt.Sprintf(".shard-%d.tmp", r.Shard.Shard))
	_ = os.WriteFile(tmp, bz, 0o644)
	_ = os.Rename(tmp, filepath.Join(r.out, fmt.Sprintf("shard-%d.json", r.Shard.Shard)))
}
