//go:build verif

package vn

import (
	"bytes"
	"crypto/sha256"
	"encoding/hex"
	"sort"

	storetypes "github.com/cosmos/cosmos-sdk/store/types"
	sdk "github.com/cosmos/cosmos-sdk/types"
)

// Snap is a full copy of every persistent KV store: store name -> key -> value.
type Snap map[string]map[string][]byte

// StoreNames lists the mounted persistent KV stores (sorted).
func (n *Node) StoreNames() []string {
	var names []string
	for name := range n.App.CommitMultiStore().(interface {
		StoreKeysByName() map[string]storetypes.StoreKey
	}).StoreKeysByName() {
		if n.App.GetKey(name) != nil {
			names = append(names, name)
		}
	}
	sort.Strings(names)
	return names
}

// Snapshot copies every persistent store visible in ctx.
func (n *Node) Snapshot(ctx sdk.Context, only ...string) Snap {
	names := only
	if len(names) == 0 {
		names = n.StoreNames()
	}
	s := Snap{}
	for _, name := range names {
		key := n.App.GetKey(name)
		if key == nil {
			continue
		}
		m := map[string][]byte{}
		it := ctx.MultiStore().GetKVStore(key).Iterator(nil, nil)
		for ; it.Valid(); it.Next() {
			m[string(it.Key())] = append([]byte(nil), it.Value()...)
		}
		it.Close()
		s[name] = m
	}
	return s
}

// Change is one differing key.
type Change struct {
	Store string
	Key   []byte
	Old   []byte // nil = absent
	New   []byte // nil = absent
}

func (c Change) String() string {
	f := func(b []byte) string {
		if b == nil {
			return "<nil>"
		}
		if len(b) > 48 {
			return hex.EncodeToString(b[:48]) + "…"
		}
		return hex.EncodeToString(b)
	}
	return c.Store + "/" + hex.EncodeToString(c.Key) + ": " + f(c.Old) + " -> " + f(c.New)
}

// Diff lists the keys whose value differs between a and b, sorted by (store, key).
func Diff(a, b Snap) []Change {
	var out []Change
	stores := map[string]bool{}
	for s := range a {
		stores[s] = true
	}
	for s := range b {
		stores[s] = true
	}
	for s := range stores {
		am, bm := a[s], b[s]
		for k, av := range am {
			bv, ok := bm[k]
			if !ok {
				out = append(out, Change{s, []byte(k), av, nil})
			} else if !bytes.Equal(av, bv) {
				out = append(out, Change{s, []byte(k), av, bv})
			}
		}
		for k, bv := range bm {
			if _, ok := am[k]; !ok {
				out = append(out, Change{s, []byte(k), nil, bv})
			}
		}
	}
	sort.Slice(out, func(i, j int) bool {
		if out[i].Store != out[j].Store {
			return out[i].Store < out[j].Store
		}
		return bytes.Compare(out[i].Key, out[j].Key) < 0
	})
	return out
}

// Digest is a hash over a snapshot.
func (s Snap) Digest() string {
	h := sha256.New()
	var names []string
	for n := range s {
		names = append(names, n)
	}
	sort.Strings(names)
	for _, n := range names {
		h.Write([]byte(n))
		keys := make([]string, 0, len(s[n]))
		for k := range s[n] {
			keys = append(keys, k)
		}
		sort.Strings(keys)
		for _, k := range keys {
			h.Write([]byte{0})
			h.Write([]byte(k))
			h.Write([]byte{1})
			h.Write(s[n][k])
		}
	}
	return hex.EncodeToString(h.Sum(nil))
}

func DiffStrings(d []Change, max int) []string {
	var out []string
	for i, c := range d {
		if i >= max {
			out = append(out, "…")
			break
		}
		out = append(out, c.String())
	}
	return out
}
