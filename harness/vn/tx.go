//go:build verif

package vn

import (
	"math/big"

	sdkmath "cosmossdk.io/math"
	"github.com/cosmos/cosmos-sdk/client"
	clienttx "github.com/cosmos/cosmos-sdk/client/tx"
	codectypes "github.com/cosmos/cosmos-sdk/codec/types"
	sdk "github.com/cosmos/cosmos-sdk/types"
	"github.com/cosmos/cosmos-sdk/types/tx/signing"
	authsigning "github.com/cosmos/cosmos-sdk/x/auth/signing"
	authtx "github.com/cosmos/cosmos-sdk/x/auth/tx"
	"github.com/ethereum/go-ethereum/common"
	ethtypes "github.com/ethereum/go-ethereum/core/types"
	ethcrypto "github.com/ethereum/go-ethereum/crypto"

	evmtypes "github.com/haqq-network/haqq/x/evm/types"
)

// EthArgs describes an Ethereum transaction to sign. Type: 0 legacy, 1 access list, 2 dynamic fee.
type EthArgs struct {
	Type      int
	Nonce     uint64
	To        *common.Address
	Value     *big.Int
	Gas       uint64
	GasPrice  *big.Int // legacy / access list
	GasFeeCap *big.Int // dynamic
	GasTipCap *big.Int // dynamic
	Data      []byte
	Access    ethtypes.AccessList
	ChainID   *big.Int // nil => node chain id
}

// SignEth builds and signs a geth transaction.
func (n *Node) SignEth(from Account, a EthArgs) *ethtypes.Transaction {
	cid := a.ChainID
	if cid == nil {
		cid = n.EIP155()
	}
	if a.Value == nil {
		a.Value = new(big.Int)
	}
	var inner ethtypes.TxData
	switch a.Type {
	case 0:
		gp := a.GasPrice
		if gp == nil {
			gp = new(big.Int)
		}
		inner = &ethtypes.LegacyTx{Nonce: a.Nonce, To: a.To, Value: a.Value, Gas: a.Gas, GasPrice: gp, Data: a.Data}
	case 1:
		gp := a.GasPrice
		if gp == nil {
			gp = new(big.Int)
		}
		inner = &ethtypes.AccessListTx{ChainID: cid, Nonce: a.Nonce, To: a.To, Value: a.Value, Gas: a.Gas, GasPrice: gp, Data: a.Data, AccessList: a.Access}
	default:
		fc, tc := a.GasFeeCap, a.GasTipCap
		if fc == nil {
			fc = new(big.Int)
		}
		if tc == nil {
			tc = new(big.Int)
		}
		inner = &ethtypes.DynamicFeeTx{ChainID: cid, Nonce: a.Nonce, To: a.To, Value: a.Value, Gas: a.Gas, GasFeeCap: fc, GasTipCap: tc, Data: a.Data, AccessList: a.Access}
	}
	key, err := from.Priv.ToECDSA()
	Must(err)
	tx, err := ethtypes.SignNewTx(key, ethtypes.LatestSignerForChainID(cid), inner)
	Must(err)
	return tx
}

// WrapEth wraps signed geth transactions into one Cosmos transaction on the Ethereum route.
func (n *Node) WrapEth(txs ...*ethtypes.Transaction) []byte {
	if len(txs) == 1 {
		msg := &evmtypes.MsgEthereumTx{}
		Must(msg.FromEthereumTx(txs[0]))
		b := n.Enc.TxConfig.NewTxBuilder()
		tx, err := msg.BuildTx(b, Denom)
		Must(err)
		bz, err := n.Enc.TxConfig.TxEncoder()(tx)
		Must(err)
		return bz
	}
	b := n.Enc.TxConfig.NewTxBuilder()
	var msgs []sdk.Msg
	fee := sdk.Coins{}
	gas := uint64(0)
	for _, t := range txs {
		msg := &evmtypes.MsgEthereumTx{}
		Must(msg.FromEthereumTx(t))
		msgs = append(msgs, msg)
		fee = fee.Add(sdk.NewCoin(Denom, sdkmath.NewIntFromBigInt(msg.GetFee())))
		gas += msg.GetGas()
	}
	Must(b.SetMsgs(msgs...))
	opt, err := codectypes.NewAnyWithValue(&evmtypes.ExtensionOptionsEthereumTx{})
	Must(err)
	b.(authtx.ExtensionOptionsTxBuilder).SetExtensionOptions(opt)
	b.SetGasLimit(gas)
	b.SetFeeAmount(fee)
	bz, err := n.Enc.TxConfig.TxEncoder()(b.GetTx())
	Must(err)
	return bz
}

// EthTx signs and wraps in one go using the sender's current nonce when Nonce is left
// zero and autoNonce is set.
func (n *Node) EthTx(from Account, a EthArgs) []byte {
	return n.WrapEth(n.SignEth(from, a))
}

func (n *Node) EthNonce(a common.Address) uint64 {
	return n.App.EvmKeeper.GetNonce(n.Ctx(), a)
}

// CreateAddress is the address of a contract created by sender at nonce.
func CreateAddress(sender common.Address, nonce uint64) common.Address {
	return ethcrypto.CreateAddress(sender, nonce)
}

// CosmosArgs describes a Cosmos transaction.
type CosmosArgs struct {
	Msgs       []sdk.Msg
	Gas        uint64
	Fee        sdk.Coins
	FeeGranter sdk.AccAddress
	FeePayer   sdk.AccAddress
	Memo       string
	Timeout    uint64
	Mode       signing.SignMode // default DIRECT
	ChainID    string           // default node chain id
	ExtOpts    []*codectypes.Any
	// Seq / AccNum overrides (nil => from state)
	Seq    *uint64
	AccNum *uint64
}

// CosmosBuilder prepares an unsigned builder.
func (n *Node) CosmosBuilder(a CosmosArgs) client.TxBuilder {
	b := n.Enc.TxConfig.NewTxBuilder()
	Must(b.SetMsgs(a.Msgs...))
	gas := a.Gas
	if gas == 0 {
		gas = 2_000_000
	}
	b.SetGasLimit(gas)
	fee := a.Fee
	if fee == nil {
		fee = sdk.NewCoins(sdk.NewCoin(Denom, sdkmath.NewInt(int64(gas)).MulRaw(1_000_000_000)))
	}
	b.SetFeeAmount(fee)
	b.SetMemo(a.Memo)
	b.SetTimeoutHeight(a.Timeout)
	if a.FeeGranter != nil {
		b.SetFeeGranter(a.FeeGranter)
	}
	if a.FeePayer != nil {
		b.SetFeePayer(a.FeePayer)
	}
	if len(a.ExtOpts) > 0 {
		b.(authtx.ExtensionOptionsTxBuilder).SetExtensionOptions(a.ExtOpts...)
	}
	return b
}

// SignCosmos signs a builder with the given signers (in GetSigners order).
func (n *Node) SignCosmos(b client.TxBuilder, a CosmosArgs, signers ...Account) authsigning.Tx {
	mode := a.Mode
	if mode == signing.SignMode_SIGN_MODE_UNSPECIFIED {
		mode = signing.SignMode_SIGN_MODE_DIRECT
	}
	chainID := a.ChainID
	if chainID == "" {
		chainID = n.Cfg.ChainID
	}
	seqs := make([]uint64, len(signers))
	nums := make([]uint64, len(signers))
	var sigs []signing.SignatureV2
	for i, s := range signers {
		seqs[i], nums[i] = n.Seq(s.Addr), n.AccNum(s.Addr)
		if i == 0 && a.Seq != nil {
			seqs[i] = *a.Seq
		}
		if i == 0 && a.AccNum != nil {
			nums[i] = *a.AccNum
		}
		sigs = append(sigs, signing.SignatureV2{
			PubKey:   s.Priv.PubKey(),
			Data:     &signing.SingleSignatureData{SignMode: mode},
			Sequence: seqs[i],
		})
	}
	Must(b.SetSignatures(sigs...))
	sigs = sigs[:0]
	for i, s := range signers {
		sd := authsigning.SignerData{ChainID: chainID, AccountNumber: nums[i], Sequence: seqs[i], Address: s.Addr.String(), PubKey: s.Priv.PubKey()}
		sig, err := clienttx.SignWithPrivKey(mode, sd, b, s.Priv, n.Enc.TxConfig, seqs[i])
		Must(err)
		sigs = append(sigs, sig)
	}
	Must(b.SetSignatures(sigs...))
	return b.GetTx()
}

// CosmosTx builds, signs (by the given signers) and encodes a Cosmos transaction.
func (n *Node) CosmosTx(a CosmosArgs, signers ...Account) []byte {
	b := n.CosmosBuilder(a)
	tx := n.SignCosmos(b, a, signers...)
	bz, err := n.Enc.TxConfig.TxEncoder()(tx)
	Must(err)
	return bz
}

func (n *Node) Encode(tx sdk.Tx) []byte {
	bz, err := n.Enc.TxConfig.TxEncoder()(tx)
	Must(err)
	return bz
}

func Coins(amt int64) sdk.Coins { return sdk.NewCoins(sdk.NewInt64Coin(Denom, amt)) }
func CoinsI(amt sdkmath.Int) sdk.Coins {
	return sdk.NewCoins(sdk.NewCoin(Denom, amt))
}
