//go:build verif

package vn

import (
	"fmt"
	"strconv"

	abci "github.com/cometbft/cometbft/abci/types"
	sdk "github.com/cosmos/cosmos-sdk/types"
	transfertypes "github.com/cosmos/ibc-go/v7/modules/apps/transfer/types"
	clienttypes "github.com/cosmos/ibc-go/v7/modules/core/02-client/types"
	channeltypes "github.com/cosmos/ibc-go/v7/modules/core/04-channel/types"
	localhost "github.com/cosmos/ibc-go/v7/modules/light-clients/09-localhost"
)

// Loopback is a pair of ICS-20 channel ends on this chain, connected to each other over
// ibc-go's connection-localhost: packets sent on A are received on B and vice versa, through
// the real IBC core, the transfer module and every middleware the application stacks on it.
// Every step is an ordinary signed transaction (no relayer process, no second chain).
type Loopback struct {
	N       *Node
	A, B    string
	Relayer Account
}

const LocalConn = "connection-localhost"

func (n *Node) proofHeight() clienttypes.Height { return clienttypes.NewHeight(1, uint64(n.Height)) }

func (n *Node) relay(signer Account, msg sdk.Msg) abci.ResponseDeliverTx {
	return n.Deliver(n.CosmosTx(CosmosArgs{Msgs: []sdk.Msg{msg}, Gas: 5_000_000, Fee: Coins(5_000_000)}, signer))
}

// OpenLoopback runs the four-step channel handshake inside the currently open block.
func (n *Node) OpenLoopback(relayer Account) (*Loopback, error) {
	s := relayer.Addr.String()
	next := func() string {
		return channeltypes.FormatChannelIdentifier(n.App.IBCKeeper.ChannelKeeper.GetNextChannelSequence(n.Ctx()))
	}
	a := next()
	if res := n.relay(relayer, channeltypes.NewMsgChannelOpenInit("transfer", transfertypes.Version, channeltypes.UNORDERED, []string{LocalConn}, "transfer", s)); res.Code != 0 {
		return nil, fmt.Errorf("open init: %s", res.Log)
	}
	b := next()
	if res := n.relay(relayer, channeltypes.NewMsgChannelOpenTry("transfer", transfertypes.Version, channeltypes.UNORDERED, []string{LocalConn}, "transfer", a, transfertypes.Version, localhost.SentinelProof, n.proofHeight(), s)); res.Code != 0 {
		return nil, fmt.Errorf("open try: %s", res.Log)
	}
	if res := n.relay(relayer, channeltypes.NewMsgChannelOpenAck("transfer", a, b, transfertypes.Version, localhost.SentinelProof, n.proofHeight(), s)); res.Code != 0 {
		return nil, fmt.Errorf("open ack: %s", res.Log)
	}
	if res := n.relay(relayer, channeltypes.NewMsgChannelOpenConfirm("transfer", b, localhost.SentinelProof, n.proofHeight(), s)); res.Code != 0 {
		return nil, fmt.Errorf("open confirm: %s", res.Log)
	}
	return &Loopback{N: n, A: a, B: b, Relayer: relayer}, nil
}

// Other returns the opposite end.
func (l *Loopback) Other(ch string) string {
	if ch == l.A {
		return l.B
	}
	return l.A
}

// PacketFromEvents extracts the packet a successful MsgTransfer (or precompile transfer) sent.
func PacketFromEvents(evs []abci.Event) (channeltypes.Packet, bool) {
	for _, ev := range evs {
		if ev.Type != channeltypes.EventTypeSendPacket {
			continue
		}
		at := map[string]string{}
		for _, a := range ev.Attributes {
			at[a.Key] = a.Value
		}
		seq, _ := strconv.ParseUint(at[channeltypes.AttributeKeySequence], 10, 64)
		ts, _ := strconv.ParseUint(at[channeltypes.AttributeKeyTimeoutTimestamp], 10, 64)
		th, _ := clienttypes.ParseHeight(at[channeltypes.AttributeKeyTimeoutHeight])
		return channeltypes.NewPacket([]byte(at[channeltypes.AttributeKeyData]), seq, at[channeltypes.AttributeKeySrcPort], at[channeltypes.AttributeKeySrcChannel],
			at[channeltypes.AttributeKeyDstPort], at[channeltypes.AttributeKeyDstChannel], th, ts), true
	}
	return channeltypes.Packet{}, false
}

// AckFromEvents extracts the acknowledgement written while receiving a packet.
func AckFromEvents(evs []abci.Event) ([]byte, bool) {
	for _, ev := range evs {
		if ev.Type != channeltypes.EventTypeWriteAck {
			continue
		}
		for _, a := range ev.Attributes {
			if a.Key == channeltypes.AttributeKeyAck {
				return []byte(a.Value), true
			}
		}
	}
	return nil, false
}

// Recv delivers MsgRecvPacket for a packet; returns the tx result and the acknowledgement written.
func (l *Loopback) Recv(p channeltypes.Packet) (abci.ResponseDeliverTx, []byte) {
	res := l.N.relay(l.Relayer, channeltypes.NewMsgRecvPacket(p, localhost.SentinelProof, l.N.proofHeight(), l.Relayer.Addr.String()))
	ack, _ := AckFromEvents(res.Events)
	return res, ack
}

// Ack delivers MsgAcknowledgement back to the sending end.
func (l *Loopback) Ack(p channeltypes.Packet, ack []byte) abci.ResponseDeliverTx {
	return l.N.relay(l.Relayer, channeltypes.NewMsgAcknowledgement(p, ack, localhost.SentinelProof, l.N.proofHeight(), l.Relayer.Addr.String()))
}

// Timeout delivers MsgTimeout (valid once the packet's timeout has passed on the receiving end, i.e. this chain).
func (l *Loopback) Timeout(p channeltypes.Packet) abci.ResponseDeliverTx {
	return l.N.relay(l.Relayer, channeltypes.NewMsgTimeout(p, 1, localhost.SentinelProof, l.N.proofHeight(), l.Relayer.Addr.String()))
}
