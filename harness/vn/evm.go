//go:build verif

package vn

import (
	"math/big"

	abci "github.com/cometbft/cometbft/abci/types"
	sdk "github.com/cosmos/cosmos-sdk/types"
	"github.com/ethereum/go-ethereum/common"

	evmtypes "github.com/haqq-network/haqq/x/evm/types"
)

// GasPrice used by helper transactions: comfortably above any base fee the harness configures.
var HelperGasPrice = big.NewInt(2_000_000_000_000)

// Deploy sends a create transaction with the given init code and returns the new address.
func (n *Node) Deploy(from Account, init []byte, value *big.Int) (common.Address, abci.ResponseDeliverTx) {
	nonce := n.EthNonce(from.Eth)
	res := n.Deliver(n.EthTx(from, EthArgs{Type: 0, Nonce: nonce, Value: value, Gas: 3_000_000, GasPrice: HelperGasPrice, Data: init}))
	return CreateAddress(from.Eth, nonce), res
}

// EthResult decodes the Ethereum responses of a delivered transaction.
func EthResult(res abci.ResponseDeliverTx) []*evmtypes.MsgEthereumTxResponse {
	var out []*evmtypes.MsgEthereumTxResponse
	var td sdk.TxMsgData
	if err := td.Unmarshal(res.Data); err != nil {
		return nil
	}
	for _, r := range td.MsgResponses {
		var e evmtypes.MsgEthereumTxResponse
		if r.TypeUrl == "/ethermint.evm.v1.MsgEthereumTxResponse" && e.Unmarshal(r.Value) == nil {
			out = append(out, &e)
		}
	}
	return out
}
