//go:build verif

// Package vn is the deterministic chain driver of the verification harness: it owns one
// real *app.Haqq built from /repo and speaks raw ABCI to it in exactly the call order
// CometBFT produces. Nothing here reads the wall clock; genesis, keys, header times,
// proposers, votes and evidence are all inputs.
package vn

import (
	"crypto/sha256"
	"encoding/binary"
	"encoding/json"
	"fmt"
	"math/big"
	"reflect"
	"sort"
	"time"
	"unsafe"

	sdkmath "cosmossdk.io/math"
	dbm "github.com/cometbft/cometbft-db"
	abci "github.com/cometbft/cometbft/abci/types"
	tmcrypto "github.com/cometbft/cometbft/crypto"
	cryptoenc "github.com/cometbft/cometbft/crypto/encoding"
	"github.com/cometbft/cometbft/libs/log"
	tmproto "github.com/cometbft/cometbft/proto/tendermint/types"
	tmtypes "github.com/cometbft/cometbft/types"
	"github.com/cosmos/cosmos-sdk/baseapp"
	"github.com/cosmos/cosmos-sdk/client"
	"github.com/cosmos/cosmos-sdk/codec"
	codectypes "github.com/cosmos/cosmos-sdk/codec/types"
	cryptocodec "github.com/cosmos/cosmos-sdk/crypto/codec"
	"github.com/cosmos/cosmos-sdk/crypto/keys/ed25519"
	servertypes "github.com/cosmos/cosmos-sdk/server/types"
	simtestutil "github.com/cosmos/cosmos-sdk/testutil/sims"
	sdk "github.com/cosmos/cosmos-sdk/types"
	authtypes "github.com/cosmos/cosmos-sdk/x/auth/types"
	banktypes "github.com/cosmos/cosmos-sdk/x/bank/types"
	govv1 "github.com/cosmos/cosmos-sdk/x/gov/types/v1"
	slashingtypes "github.com/cosmos/cosmos-sdk/x/slashing/types"
	stakingtypes "github.com/cosmos/cosmos-sdk/x/staking/types"
	"github.com/ethereum/go-ethereum/common"

	"github.com/haqq-network/haqq/app"
	"github.com/haqq-network/haqq/crypto/ethsecp256k1"
	"github.com/haqq-network/haqq/encoding"
	haqqtypes "github.com/haqq-network/haqq/types"
	"github.com/haqq-network/haqq/utils"
	coinomicstypes "github.com/haqq-network/haqq/x/coinomics/types"
	evmtypes "github.com/haqq-network/haqq/x/evm/types"
	feemarkettypes "github.com/haqq-network/haqq/x/feemarket/types"
)

const Denom = utils.BaseDenom

// Account is a funded externally owned account with a deterministic key.
type Account struct {
	Priv *ethsecp256k1.PrivKey
	Addr sdk.AccAddress
	Eth  common.Address
}

// Val is a genesis validator: a consensus key plus an operator account.
type Val struct {
	ConsPriv *ed25519.PrivKey
	ConsAddr sdk.ConsAddress
	Oper     Account
	ValAddr  sdk.ValAddress
	Power    int64
}

// Config describes a chain to build. The zero value is usable.
type Config struct {
	ChainID     string
	Seed        uint64
	NumVals     int
	NumAccounts int
	GenesisTime time.Time
	// AccountBalance is the aISLM balance of every funded account.
	AccountBalance sdkmath.Int
	// ExtraBalances are added to the bank genesis (address -> coins), e.g. other denoms.
	ExtraBalances map[string]sdk.Coins
	// ExtraAccounts are added to the auth genesis (e.g. vesting accounts).
	ExtraAccounts []authtypes.GenesisAccount
	// ValPower is the consensus power of every validator (default 1).
	ValPower int64
	// Mutate edits the genesis document before InitChain.
	Mutate func(cdc codec.Codec, gs haqqtypes.GenesisState)
	// DB / AppOpts / BaseAppOpts allow replicas to differ in process-local conditions.
	DB          dbm.DB
	AppOpts     servertypes.AppOptions
	BaseAppOpts []func(*baseapp.BaseApp)
	InvCheck    uint
	ConsParams  *tmproto.ConsensusParams
	// Genesis, when set, is used verbatim instead of a generated document
	// (keys are still derived from Seed so that signing works).
	Genesis haqqtypes.GenesisState
}

// Node drives one application instance.
type Node struct {
	Cfg      Config
	App      *app.Haqq
	DB       dbm.DB
	Enc      EncCfg
	Vals     []Val
	Accounts []Account

	Height  int64
	Time    time.Time
	Header  tmproto.Header
	InBlock bool
	AppHash []byte
	// LastEndBlock is the response of the most recent EndBlock call.
	LastEndBlock abci.ResponseEndBlock

	GenesisDoc haqqtypes.GenesisState
	// Absent marks validators (by index) that do not sign the next blocks.
	Absent map[int]bool
	// Log is the history fed to this node: one record per block (the last one may be open).
	Log []BlockRec
	// valSets[h] is the validator set of block h (see ValSetAt)
	valSets map[int64]map[string]int64
}

// BlockRec is the input of one block.
type BlockRec struct {
	Opts BlockOpts
	Txs  [][]byte
}

// Twin builds an independent node from the same configuration and feeds it the same
// history, including the transactions of the currently open block.
func (n *Node) Twin() *Node {
	cfg := n.Cfg
	cfg.DB = nil
	t := New(cfg)
	for i, b := range n.Log {
		t.BeginBlock(b.Opts)
		for _, tx := range b.Txs {
			t.Deliver(tx)
		}
		if i < len(n.Log)-1 || !n.InBlock {
			t.EndBlock()
			t.Commit()
		}
	}
	return t
}

type EncCfg struct {
	Codec    codec.Codec
	TxConfig client.TxConfig
	Registry codectypes.InterfaceRegistry
	Amino    *codec.LegacyAmino
}

// DetKey derives a deterministic eth_secp256k1 key from (seed, domain, index).
func DetKey(seed uint64, domain string, i int) *ethsecp256k1.PrivKey {
	var b [16]byte
	binary.BigEndian.PutUint64(b[:8], seed)
	binary.BigEndian.PutUint64(b[8:], uint64(i))
	h := sha256.Sum256(append([]byte("verif/"+domain+"/"), b[:]...))
	return &ethsecp256k1.PrivKey{Key: h[:]}
}

func NewAccount(priv *ethsecp256k1.PrivKey) Account {
	addr := sdk.AccAddress(priv.PubKey().Address())
	return Account{Priv: priv, Addr: addr, Eth: common.BytesToAddress(addr)}
}

func DetAccount(seed uint64, domain string, i int) Account {
	return NewAccount(DetKey(seed, domain, i))
}

func detEd25519(seed uint64, i int) *ed25519.PrivKey {
	var b [16]byte
	binary.BigEndian.PutUint64(b[:8], seed)
	binary.BigEndian.PutUint64(b[8:], uint64(i))
	h := sha256.Sum256(append([]byte("verif/cons/"), b[:]...))
	return ed25519.GenPrivKeyFromSecret(h[:])
}

var DefaultGenesisTime = time.Date(2026, 3, 1, 12, 0, 0, 0, time.UTC)

func (c *Config) fill() {
	if c.ChainID == "" {
		c.ChainID = utils.MainNetChainID + "-1"
	}
	if c.NumVals == 0 {
		c.NumVals = 3
	}
	if c.NumAccounts == 0 {
		c.NumAccounts = 6
	}
	if c.GenesisTime.IsZero() {
		c.GenesisTime = DefaultGenesisTime
	}
	if c.AccountBalance.IsNil() {
		c.AccountBalance = sdkmath.NewIntWithDecimal(1_000_000, 18)
	}
	if c.ValPower == 0 {
		c.ValPower = 1
	}
	if c.InvCheck == 0 {
		c.InvCheck = 5
	}
	if c.ConsParams == nil {
		c.ConsParams = app.DefaultConsensusParams
	}
}

// Keys derives the validators and accounts of a configuration without building a chain.
func Keys(cfg Config) ([]Val, []Account) {
	cfg.fill()
	vals := make([]Val, cfg.NumVals)
	for i := range vals {
		cp := detEd25519(cfg.Seed, i)
		oper := DetAccount(cfg.Seed, "oper", i)
		vals[i] = Val{
			ConsPriv: cp,
			ConsAddr: sdk.ConsAddress(cp.PubKey().Address()),
			Oper:     oper,
			ValAddr:  sdk.ValAddress(oper.Addr),
			Power:    cfg.ValPower,
		}
	}
	accs := make([]Account, cfg.NumAccounts)
	for i := range accs {
		accs[i] = DetAccount(cfg.Seed, "acc", i)
	}
	return vals, accs
}

func newApp(cfg Config, db dbm.DB) *app.Haqq {
	opts := cfg.AppOpts
	if opts == nil {
		opts = simtestutil.NewAppOptionsWithFlagHome(app.DefaultNodeHome)
	}
	bopts := append([]func(*baseapp.BaseApp){baseapp.SetChainID(cfg.ChainID)}, cfg.BaseAppOpts...)
	return app.NewHaqq(
		log.NewNopLogger(), db, nil, true, map[int64]bool{},
		app.DefaultNodeHome, cfg.InvCheck,
		encoding.MakeConfig(app.ModuleBasics),
		opts, bopts...,
	)
}

// BuildGenesis generates the genesis document of a configuration.
func BuildGenesis(cfg Config, cdc codec.Codec, vals []Val, accs []Account) haqqtypes.GenesisState {
	gs := app.NewDefaultGenesisState()

	// auth
	var genAccs []authtypes.GenesisAccount
	var balances []banktypes.Balance
	n := uint64(0)
	addAcc := func(a Account) {
		genAccs = append(genAccs, &haqqtypes.EthAccount{
			BaseAccount: authtypes.NewBaseAccount(a.Addr, nil, n, 0),
			CodeHash:    common.BytesToHash(evmtypes.EmptyCodeHash).Hex(),
		})
		n++
		balances = append(balances, banktypes.Balance{Address: a.Addr.String(), Coins: sdk.NewCoins(sdk.NewCoin(Denom, cfg.AccountBalance))})
	}
	for _, v := range vals {
		addAcc(v.Oper)
	}
	for _, a := range accs {
		addAcc(a)
	}
	genAccs = append(genAccs, cfg.ExtraAccounts...)
	for addr, coins := range cfg.ExtraBalances {
		found := false
		for i := range balances {
			if balances[i].Address == addr {
				balances[i].Coins = balances[i].Coins.Add(coins...)
				found = true
			}
		}
		if !found {
			balances = append(balances, banktypes.Balance{Address: addr, Coins: coins})
		}
	}
	gs[authtypes.ModuleName] = cdc.MustMarshalJSON(authtypes.NewGenesisState(authtypes.DefaultParams(), genAccs))

	// staking: every validator self-bonded by its operator
	bond := sdk.TokensFromConsensusPower(cfg.ValPower, haqqtypes.PowerReduction)
	var svals []stakingtypes.Validator
	var dels []stakingtypes.Delegation
	for _, v := range vals {
		pk, err := cryptocodec.FromTmPubKeyInterface(mustTmPub(v.ConsPriv))
		if err != nil {
			panic(err)
		}
		pkAny, err := codectypes.NewAnyWithValue(pk)
		if err != nil {
			panic(err)
		}
		svals = append(svals, stakingtypes.Validator{
			OperatorAddress:   v.ValAddr.String(),
			ConsensusPubkey:   pkAny,
			Status:            stakingtypes.Bonded,
			Tokens:            bond,
			DelegatorShares:   sdk.NewDecFromInt(bond),
			Description:       stakingtypes.Description{Moniker: "v"},
			UnbondingTime:     time.Unix(0, 0).UTC(),
			Commission:        stakingtypes.NewCommission(sdk.NewDecWithPrec(10, 2), sdk.NewDecWithPrec(50, 2), sdk.NewDecWithPrec(5, 2)),
			MinSelfDelegation: sdk.OneInt(),
		})
		dels = append(dels, stakingtypes.NewDelegation(v.Oper.Addr, v.ValAddr, sdk.NewDecFromInt(bond)))
	}
	sp := stakingtypes.DefaultParams()
	sp.BondDenom = Denom
	sp.UnbondingTime = 40 * time.Second
	sp.MaxValidators = 5
	gs[stakingtypes.ModuleName] = cdc.MustMarshalJSON(stakingtypes.NewGenesisState(sp, svals, dels))
	balances = append(balances, banktypes.Balance{
		Address: authtypes.NewModuleAddress(stakingtypes.BondedPoolName).String(),
		Coins:   sdk.NewCoins(sdk.NewCoin(Denom, bond.MulRaw(int64(len(vals))))),
	})

	// slashing: short windows so histories reach downtime slashing
	sl := slashingtypes.DefaultGenesisState()
	sl.Params.SignedBlocksWindow = 10
	sl.Params.MinSignedPerWindow = sdk.NewDecWithPrec(5, 1)
	sl.Params.DowntimeJailDuration = 5 * time.Second
	for _, v := range vals {
		sl.SigningInfos = append(sl.SigningInfos, slashingtypes.SigningInfo{
			Address:              v.ConsAddr.String(),
			ValidatorSigningInfo: slashingtypes.NewValidatorSigningInfo(v.ConsAddr, 0, 0, time.Unix(0, 0).UTC(), false, 0),
		})
	}
	gs[slashingtypes.ModuleName] = cdc.MustMarshalJSON(sl)

	// gov: short periods, small deposit
	gv := govv1.DefaultGenesisState()
	md := sdk.NewCoins(sdk.NewCoin(Denom, sdkmath.NewIntWithDecimal(10, 18)))
	gv.Params.MinDeposit = md
	dp := 30 * time.Second
	vp := 30 * time.Second
	gv.Params.MaxDepositPeriod = &dp
	gv.Params.VotingPeriod = &vp
	gs["gov"] = cdc.MustMarshalJSON(gv)

	// bank
	total := sdk.NewCoins()
	for _, b := range balances {
		total = total.Add(b.Coins...)
	}
	gs[banktypes.ModuleName] = cdc.MustMarshalJSON(banktypes.NewGenesisState(
		banktypes.DefaultGenesisState().Params, balances, total,
		[]banktypes.Metadata{{
			Description: "native", Base: Denom, Display: "ISLM", Name: "Islamic Coin", Symbol: "ISLM",
			DenomUnits: []*banktypes.DenomUnit{{Denom: Denom, Exponent: 0}, {Denom: "ISLM", Exponent: 18}},
		}}, []banktypes.SendEnabled{}))

	// coinomics: off by default (properties that need it switch it on through Mutate)
	cp := coinomicstypes.DefaultParams()
	cp.EnableCoinomics = false
	cg := coinomicstypes.NewGenesisState(cp, sdk.NewCoin(Denom, sdkmath.NewIntWithDecimal(100_000_000_000, 18)))
	gs[coinomicstypes.ModuleName] = cdc.MustMarshalJSON(&cg)

	// fee market: base fee off and zero min gas price unless Mutate says otherwise
	fm := feemarkettypes.DefaultGenesisState()
	fm.Params.NoBaseFee = true
	fm.Params.MinGasPrice = sdk.ZeroDec()
	gs[feemarkettypes.ModuleName] = cdc.MustMarshalJSON(fm)

	if cfg.Mutate != nil {
		cfg.Mutate(cdc, gs)
	}
	return gs
}

func mustTmPub(p *ed25519.PrivKey) tmcrypto.PubKey {
	pk, err := cryptocodec.ToTmPubKeyInterface(p.PubKey())
	if err != nil {
		panic(err)
	}
	return pk
}

// New builds the application, runs InitChain and commits the genesis state.
func New(cfg Config) *Node {
	cfg.fill()
	db := cfg.DB
	if db == nil {
		db = dbm.NewMemDB()
	}
	a := newApp(cfg, db)
	n := &Node{Cfg: cfg, App: a, DB: db, Absent: map[int]bool{}}
	ec := encoding.MakeConfig(app.ModuleBasics)
	n.Enc = EncCfg{Codec: ec.Codec, TxConfig: ec.TxConfig, Registry: ec.InterfaceRegistry, Amino: ec.Amino}
	n.Vals, n.Accounts = Keys(cfg)
	gs := cfg.Genesis
	if gs == nil {
		gs = BuildGenesis(cfg, a.AppCodec(), n.Vals, n.Accounts)
	}
	n.GenesisDoc = gs
	state, err := json.Marshal(gs)
	if err != nil {
		panic(err)
	}
	icRes := a.InitChain(abci.RequestInitChain{
		Time:            cfg.GenesisTime,
		ChainId:         cfg.ChainID,
		Validators:      []abci.ValidatorUpdate{},
		ConsensusParams: cfg.ConsParams,
		AppStateBytes:   state,
		InitialHeight:   1,
	})
	res := a.Commit()
	n.AppHash = res.Data
	n.Height = a.LastBlockHeight()
	n.Time = cfg.GenesisTime
	n.valSets = map[int64]map[string]int64{}
	set := map[string]int64{}
	for _, u := range icRes.Validators {
		set[consAddrOf(u)] = u.Power
	}
	n.valSets[1], n.valSets[2] = set, set
	return n
}

func consAddrOf(u abci.ValidatorUpdate) string {
	pk, err := cryptoenc.PubKeyFromProto(u.PubKey)
	if err != nil {
		panic(err)
	}
	return string(pk.Address())
}

// ValSetAt is the validator set (consensus address -> power) that signs block h, maintained
// from the EndBlock validator updates with CometBFT's two-block delay.
func (n *Node) ValSetAt(h int64) map[string]int64 {
	for k := h; k >= 1; k-- {
		if s, ok := n.valSets[k]; ok {
			return s
		}
	}
	return map[string]int64{}
}

func (n *Node) applyValUpdates(h int64, ups []abci.ValidatorUpdate) {
	// updates returned by EndBlock(h) take effect at block h+2
	base := n.ValSetAt(h + 1)
	if _, ok := n.valSets[h+1]; !ok {
		n.valSets[h+1] = base
	}
	next := map[string]int64{}
	for k, v := range base {
		next[k] = v
	}
	for _, u := range ups {
		if u.Power == 0 {
			delete(next, consAddrOf(u))
		} else {
			next[consAddrOf(u)] = u.Power
		}
	}
	n.valSets[h+2] = next
}

// Reopen constructs a fresh application over the node's database (a restart).
func (n *Node) Reopen() {
	if n.InBlock {
		panic("Reopen inside a block")
	}
	n.App = newApp(n.Cfg, n.DB)
}

// BlockOpts are the per-block inputs chosen by a workload.
type BlockOpts struct {
	Dt       time.Duration // time since previous block (default 1s)
	Proposer int           // validator index (default height mod NumVals)
	HasProp  bool
	Evidence []abci.Misbehavior
	// Votes overrides the generated LastCommitInfo when non-nil.
	Votes []abci.VoteInfo
}

// VoteInfos builds LastCommitInfo votes for the genesis validators honouring n.Absent.
func (n *Node) VoteInfos() []abci.VoteInfo {
	// the commit of the previous block: its validator set, in address order
	set := n.ValSetAt(n.Height)
	var addrs []string
	for a := range set {
		addrs = append(addrs, a)
	}
	sort.Strings(addrs)
	absent := map[string]bool{}
	for i, v := range n.Vals {
		if n.Absent[i] {
			absent[string(v.ConsAddr)] = true
		}
	}
	var vs []abci.VoteInfo
	for _, a := range addrs {
		vs = append(vs, abci.VoteInfo{
			Validator:       abci.Validator{Address: []byte(a), Power: set[a]},
			SignedLastBlock: !absent[a],
		})
	}
	return vs
}

func (n *Node) BeginBlock(o BlockOpts) abci.ResponseBeginBlock {
	if n.InBlock {
		panic("BeginBlock inside a block")
	}
	if o.Dt == 0 {
		o.Dt = time.Second
	}
	n.Height++
	n.Time = n.Time.Add(o.Dt)
	p := o.Proposer
	if !o.HasProp {
		p = int(n.Height) % len(n.Vals)
	}
	n.Header = tmproto.Header{
		ChainID:         n.Cfg.ChainID,
		Height:          n.Height,
		Time:            n.Time,
		AppHash:         n.AppHash,
		ProposerAddress: n.Vals[p].ConsAddr,
	}
	votes := o.Votes
	if votes == nil {
		n.Height--
		votes = n.VoteInfos()
		n.Height++
	}
	// the proposer must be a member of the current set
	if cur := n.ValSetAt(n.Height); len(cur) > 0 {
		if _, ok := cur[string(n.Vals[p].ConsAddr)]; !ok {
			var addrs []string
			for a := range cur {
				addrs = append(addrs, a)
			}
			sort.Strings(addrs)
			n.Header.ProposerAddress = []byte(addrs[int(n.Height)%len(addrs)])
		}
	}
	res := n.App.BeginBlock(abci.RequestBeginBlock{
		Header:              n.Header,
		LastCommitInfo:      abci.CommitInfo{Votes: votes},
		ByzantineValidators: o.Evidence,
	})
	n.InBlock = true
	o.Votes = votes
	n.Log = append(n.Log, BlockRec{Opts: o})
	return res
}

func (n *Node) Deliver(tx []byte) abci.ResponseDeliverTx {
	if !n.InBlock {
		panic("Deliver outside a block")
	}
	n.Log[len(n.Log)-1].Txs = append(n.Log[len(n.Log)-1].Txs, tx)
	return n.App.DeliverTx(abci.RequestDeliverTx{Tx: tx})
}

func (n *Node) EndBlock() abci.ResponseEndBlock {
	res := n.App.EndBlock(abci.RequestEndBlock{Height: n.Height})
	n.applyValUpdates(n.Height, res.ValidatorUpdates)
	n.LastEndBlock = res
	return res
}

func (n *Node) Commit() []byte {
	res := n.App.Commit()
	n.AppHash = res.Data
	n.InBlock = false
	return res.Data
}

// Block runs a whole block with the given transactions and returns the results.
func (n *Node) Block(o BlockOpts, txs ...[]byte) []abci.ResponseDeliverTx {
	n.BeginBlock(o)
	out := make([]abci.ResponseDeliverTx, len(txs))
	for i, tx := range txs {
		out[i] = n.Deliver(tx)
	}
	n.EndBlock()
	n.Commit()
	return out
}

// Ctx is the uncommitted deliver-state context inside a block, or a context over
// the last committed state (check state) outside one.
func (n *Node) Ctx() sdk.Context {
	if n.InBlock {
		return n.App.BaseApp.NewContext(false, n.Header)
	}
	h := n.Header
	if h.ChainID == "" {
		h = tmproto.Header{ChainID: n.Cfg.ChainID, Height: n.Height, Time: n.Time}
	}
	return n.App.BaseApp.NewContext(true, h)
}

func (n *Node) EIP155() *big.Int {
	id, err := haqqtypes.ParseChainID(n.Cfg.ChainID)
	if err != nil {
		panic(err)
	}
	return id
}

func (n *Node) Balance(addr sdk.AccAddress, denom string) sdkmath.Int {
	return n.App.BankKeeper.GetBalance(n.Ctx(), addr, denom).Amount
}

func (n *Node) Supply(denom string) sdkmath.Int {
	return n.App.BankKeeper.GetSupply(n.Ctx(), denom).Amount
}

func (n *Node) Seq(addr sdk.AccAddress) uint64 {
	acc := n.App.AccountKeeper.GetAccount(n.Ctx(), addr)
	if acc == nil {
		return 0
	}
	return acc.GetSequence()
}

func (n *Node) AccNum(addr sdk.AccAddress) uint64 {
	acc := n.App.AccountKeeper.GetAccount(n.Ctx(), addr)
	if acc == nil {
		return 0
	}
	return acc.GetAccountNumber()
}

func ModuleAddr(name string) sdk.AccAddress { return authtypes.NewModuleAddress(name) }

func Must(err error) {
	if err != nil {
		panic(err)
	}
}

func Fmt(format string, a ...any) string { return fmt.Sprintf(format, a...) }

// DoubleSignEvidence builds duplicate-vote evidence against validator i.
func (n *Node) DoubleSignEvidence(i int, height int64, t time.Time) abci.Misbehavior {
	return abci.Misbehavior{
		Type:             abci.MisbehaviorType_DUPLICATE_VOTE,
		Validator:        abci.Validator{Address: n.Vals[i].ConsAddr, Power: n.Vals[i].Power},
		Height:           height,
		Time:             t,
		TotalVotingPower: int64(len(n.Vals)) * n.Vals[i].Power,
	}
}

var _ = tmtypes.ABCIPubKeyTypeEd25519

func Errf(format string, a ...any) error { return fmt.Errorf(format, a...) }

// AnteHandler returns the ante handler the application installed (the very instance DeliverTx and
// CheckTx use). baseapp keeps it in an unexported field; it is read, not replaced.
func (n *Node) AnteHandler() sdk.AnteHandler {
	f := reflect.ValueOf(n.App.BaseApp).Elem().FieldByName("anteHandler")
	if !f.IsValid() {
		return nil
	}
	return *(*sdk.AnteHandler)(unsafe.Pointer(f.UnsafeAddr()))
}
