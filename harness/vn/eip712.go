//go:build verif

package vn

import (
	codectypes "github.com/cosmos/cosmos-sdk/codec/types"
	sdk "github.com/cosmos/cosmos-sdk/types"
	authante "github.com/cosmos/cosmos-sdk/x/auth/ante"
	authtx "github.com/cosmos/cosmos-sdk/x/auth/tx"

	utiltx "github.com/haqq-network/haqq/testutil/tx"
)

// EIP712Tx builds an EIP-712 signed Cosmos transaction with the repository's own client
// helper (testutil/tx): legacyExt selects the ExtensionOptionsWeb3Tx route, otherwise the
// signature travels as a normal SignatureV2 and is verified by the eth_secp256k1 typed-data
// fallback. extra extension options are appended after the helper's own.
func (n *Node) EIP712Tx(signer Account, msgs []sdk.Msg, gas uint64, fee sdk.Coins, legacyExt, legacyTyped bool, extra []*codectypes.Any) (bz []byte, err error) {
	b, err := utiltx.PrepareEIP712CosmosTx(n.Ctx(), n.App, utiltx.EIP712TxArgs{
		CosmosTxArgs: utiltx.CosmosTxArgs{
			TxCfg: n.Enc.TxConfig, Priv: signer.Priv, ChainID: n.Cfg.ChainID, Gas: gas, Fees: fee, Msgs: msgs,
		},
		UseLegacyExtension: legacyExt,
		UseLegacyTypedData: legacyTyped,
	})
	if err != nil {
		return nil, err
	}
	if len(extra) > 0 {
		var cur []*codectypes.Any
		if h, ok := b.GetTx().(authante.HasExtensionOptionsTx); ok {
			cur = h.GetExtensionOptions()
		}
		b.(authtx.ExtensionOptionsTxBuilder).SetExtensionOptions(append(cur, extra...)...)
	}
	return n.Enc.TxConfig.TxEncoder()(b.GetTx())
}

// EIP712TxChain is EIP712Tx signed for an arbitrary chain id string ("" = the node's).
func (n *Node) EIP712TxChain(signer Account, msgs []sdk.Msg, gas uint64, fee sdk.Coins, legacyExt, legacyTyped bool, chainID string) (bz []byte, err error) {
	defer func() {
		if rec := recover(); rec != nil {
			err = Errf("eip712 builder panicked: %v", rec)
		}
	}()
	if chainID == "" {
		chainID = n.Cfg.ChainID
	}
	ctx := n.Ctx()
	if chainID != n.Cfg.ChainID {
		ctx = ctx.WithChainID(chainID)
	}
	b, err := utiltx.PrepareEIP712CosmosTx(ctx, n.App, utiltx.EIP712TxArgs{
		CosmosTxArgs: utiltx.CosmosTxArgs{
			TxCfg: n.Enc.TxConfig, Priv: signer.Priv, ChainID: chainID, Gas: gas, Fees: fee, Msgs: msgs,
		},
		UseLegacyExtension: legacyExt,
		UseLegacyTypedData: legacyTyped,
	})
	if err != nil {
		return nil, err
	}
	return n.Enc.TxConfig.TxEncoder()(b.GetTx())
}
