#!/usr/bin/env python3
"""Regenerates /verif/MANIFEST.json from plan.json (claimed checks) and the properties
file (everything not claimed is listed under not_applicable with its reason from
not_claimed.json). Run after editing plan.json."""
import json, subprocess

V = "/verif"
plan = json.load(open(V + "/plan.json"))
props = [json.loads(l) for l in open(V + "/properties.jsonl")]
try:
    nc = json.load(open(V + "/not_claimed.json"))
except FileNotFoundError:
    nc = {}
hooks_commits = [l.strip() for l in open(V + "/hook_commits.txt")] if __import__("os").path.exists(V + "/hook_commits.txt") else []

checks, na = [], []
for p in props:
    pid = p["id"]
    if pid in plan:
        pl = plan[pid]
        c = {
            "property_id": pid,
            "quick_cmd": f"./check {pid} quick",
            "thorough_cmd": f"./check {pid} thorough",
            "evidence_file": f"/verif/evidence/{pid}.json",
            "replay_cmd_template": f"./check {pid} --replay {{path}}",
            "engine": "haqq-runtime-monitors",
            "level_claimed": {
                "category": pl.get("level", "exploration"),
                "text": pl["level_text"],
                "design_ref": pl.get("design_ref", f"DESIGN.md section 4, {pid}"),
            },
            "level_note": pl["level_note"],
            "technique": pl["technique"],
        }
        checks.append(c)
    else:
        na.append({"property_id": pid, "reason": nc.get(pid, "monitor not built yet in this round; see DESIGN.md section 4 for the planned oracle")})

m = {
    "version": 1,
    "setup_cmd": "./scripts/setup.sh",
    "hooks": {
        "guard": "verif",
        "enable": "go build tag: the harness is compiled with `go test -tags verif`; every harness file carries //go:build verif. No source hooks were added to /repo (all observations are taken at public boundaries: ABCI, exported keepers, raw store iteration; C06 additionally reads - never replaces - baseapp's installed ante handler through reflection to hand it constructed transactions).",
        "baseline_off_cmd": "./scripts/baseline_off.sh",
        "source_commits": hooks_commits,
        "add_only": True,
    },
    "engines": [{
        "name": "haqq-runtime-monitors",
        "path": "/verif/harness",
        "serves_properties": sorted(plan.keys()),
        "kind_free_text": "Go test binary linked against /repo's working tree; drives real app.Haqq instances through raw ABCI with PRNG-generated hostile workloads in shard processes; monitors (store diffs, reference models, replica trace comparison) decide; /verif/check merges shard observations into evidence",
    }],
    "checks": checks,
    "not_applicable": na,
    "notes": "Technique family: runtime monitoring. Verdicts are three-valued (exit 0 held / 1 VIOLATION / 2 INCONCLUSIVE). known_findings.json lists defects found on the pinned tree (fixed ones with their fix: commit).",
}
json.dump(m, open(V + "/MANIFEST.json", "w"), indent=1, ensure_ascii=False)
print("claimed", len(checks), "not_applicable", len(na))
