#!/usr/bin/env bash
# usage: seedtest.sh <patch.diff> <Cxx> [tier] : applies a seeded change to /repo, runs the check, reverts.
set -u
P=$1; ID=$2; T=${3:-quick}
cd /repo || exit 9
if ! git diff --quiet; then echo "/repo dirty"; exit 9; fi
git apply "$P" || { echo "patch does not apply"; exit 9; }
cd /verif && ./check "$ID" "$T"; rc=$?
git -C /repo checkout -- . 
echo "seedtest rc=$rc (1 = detected)"
exit 0
