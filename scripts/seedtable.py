#!/usr/bin/env python3
"""Renders /verif/seeded/results.json (+ notes from detection.json) into the table of DESIGN.md section 9."""
import json, os
res = json.load(open('/verif/seeded/results.json'))
notes = json.load(open('/verif/seeded/detection.json')) if os.path.exists('/verif/seeded/detection.json') else {}
rows = ['| change | property | what it changes (one line) | quick check of that property | first signature(s) | note |', '|---|---|---|---|---|---|']
for n in sorted(res):
    r = res[n]
    m = json.load(open(f'/verif/seeded/{n}/meta.json'))
    summ = m['summary'].replace('\n', ' ').replace('|', '\\|')
    if len(summ) > 170: summ = summ[:167] + '…'
    verdict = 'patch no longer applies' if not r.get('applies') else ('**detected** (exit 1, %d distinct signatures)' % r['distinct_signatures'] if r.get('detected') else 'not detected (exit %s)' % r.get('exit'))
    sigs = '; '.join('`%s`' % x.replace('|', '\\|') for x in r.get('signatures', [])[:2])
    rows.append('| %s | %s | %s | %s | %s | %s |' % (n, r['property'], summ, verdict, sigs, notes.get(n, {}).get('note', '').replace('|', '\\|')))
table = '\n'.join(rows)
p = '/verif/DESIGN.md'
s = open(p).read()
a = s.index('<!-- SEEDTABLE -->')
b = s.find('<!-- /SEEDTABLE -->')
if b < 0:
    s = s[:a] + '<!-- SEEDTABLE -->\n' + table + '\n<!-- /SEEDTABLE -->\n' + s[a + len('<!-- SEEDTABLE -->'):]
else:
    s = s[:a] + '<!-- SEEDTABLE -->\n' + table + '\n' + s[b:]
open(p, 'w').write(s)
print(len(rows) - 2, 'rows')
