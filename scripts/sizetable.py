#!/usr/bin/env python3
"""Renders the as-built size table of DESIGN.md section 5a from the evidence files (quick tier) and
a file of thorough-tier summary lines ("[Cxx thorough seed=…] evaluations=… wall=…s"), one per property."""
import json, re, sys, glob
thorough = {}
if len(sys.argv) > 1:
    for l in open(sys.argv[1]):
        m = re.search(r'\[(C\d\d) thorough seed=(\d+)\] evaluations=(\d+) distinct_nontrivial=(\d+) violations=(\d+) known=(\d+) shards=(\S+) wall=([\d.]+)s', l)
        if m:
            thorough[m.group(1)] = m.groups()
plan = json.load(open('/verif/plan.json'))
rows = ['| id | quick: evaluations / distinct non-trivial classes / wall | thorough (scale): evaluations / distinct classes / wall on 16 idle cores |', '|---|---|---|']
for pid in sorted(plan):
    try:
        e = json.load(open(f'/verif/evidence/{pid}.json'))
        q = f"{e['coverage']['evaluations']:,} / {e['coverage']['distinct_nontrivial']} / {e['wall_s']:.0f} s" if e['tier'] == 'quick' else '(evidence file holds a thorough run)'
    except Exception:
        q = '-'
    t = thorough.get(pid)
    ts = f"×{plan[pid].get('thorough_scale', 1)}: {int(t[2]):,} / {t[3]} / {float(t[7]):.0f} s" if t else '-'
    rows.append(f'| {pid} | {q} | {ts} |')
table = '\n'.join(rows)
p = '/verif/DESIGN.md'
s = open(p).read()
a, b = s.find('<!-- SIZETABLE -->'), s.find('<!-- /SIZETABLE -->')
if a < 0:
    print('no marker'); sys.exit(1)
s = s[:a] + '<!-- SIZETABLE -->\n' + table + '\n' + s[b:]
open(p, 'w').write(s)
print(len(rows) - 2, 'rows')
