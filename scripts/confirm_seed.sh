#!/usr/bin/env bash
# usage: confirm_seed.sh <name> <property> : confirms a sub-agent's seeded change in its scratch worktree
# /tmp/wt/<name> (patch applied, demo present): demo fails with it, passes without it, build and full
# suite pass with it. On success copies patch+demo+meta into /verif/seeded/<name>/ and removes the worktree.
set -u
N=$1; PROP=$2
WT=/tmp/wt/$N; SD=${SEED_DIR:-/tmp/seeded}/$N; OUT=/verif/seeded/$N
export GOFLAGS=-mod=mod GOPROXY=off GOSUMDB=off GOTOOLCHAIN=local
cd $WT || exit 9
DEMO=$(python3 -c "import json;print(json.load(open('$SD/meta.json'))['demo'])")
echo "demo: $DEMO"
git -C $WT diff > $SD/patch.check.diff
run_demo() { (cd $WT && eval "$DEMO" > $SD/demo.$1.log 2>&1); echo $?; }
with=$(run_demo with)
git -C $WT apply -R $SD/patch.diff || { echo "cannot revert"; exit 9; }
without=$(run_demo without)
git -C $WT apply $SD/patch.diff || { echo "cannot re-apply"; exit 9; }
echo "demo with change rc=$with ; without rc=$without"
# full suite with the change, demo files moved aside
mkdir -p $SD/aside; for f in $(cd $WT && git ls-files --others --exclude-standard | grep _test.go); do mkdir -p $SD/aside/$(dirname $f); mv $WT/$f $SD/aside/$f; done
(cd $WT && go build ./... && go test -vet=off -count=1 -timeout 25m ./... 2>&1 | grep -v "^ok\|no test files" > $SD/suite.log)
fails=$(grep -c "^FAIL\s*github.com" $SD/suite.log)
onlyclient=$(grep "^FAIL\s*github.com" $SD/suite.log | grep -vc "haqq/client\s")
echo "suite: failing packages=$fails other-than-client=$onlyclient"
if [ "$with" != "0" ] && [ "$without" = "0" ] && [ "$onlyclient" = "0" ]; then
  mkdir -p $OUT; cp $SD/patch.diff $OUT/; (cd $SD/aside && find . -name '*_test.go' -exec cp {} $OUT/ \;)
  WITH=$with WITHOUT=$without ONLY=$onlyclient DEMO="$DEMO" SD=$SD OUT=$OUT PROP=$PROP python3 - <<'PY'
import json,os
e=os.environ
m=json.load(open(e['SD']+'/meta.json'))
m['property']=e['PROP']
m['confirmed_by_main']={'demo_with_change_rc':int(e['WITH']),'demo_without_change_rc':int(e['WITHOUT']),
  'suite_failing_packages_other_than_preexisting_client':int(e['ONLY']),
  'commands':[e['DEMO']+'   (in the scratch worktree, with and without patch.diff)',
              'go build ./... && go test -vet=off -count=1 -timeout 25m ./...   (with patch, demo file moved aside)']}
json.dump(m,open(e['OUT']+'/meta.json','w'),indent=1)
PY
  echo "CONFIRMED -> $OUT"
  git -C /repo worktree remove --force $WT
else
  echo "NOT CONFIRMED"; cat $SD/suite.log | head -20
  # put the demo files back so that the confirmation can be repeated
  (cd $SD/aside && find . -name '*_test.go' | while read f; do cp $f $WT/$f; done); rm -rf $SD/aside
fi
