#!/usr/bin/env bash
# Offline setup: regenerate the harness module files from /repo and warm the build cache
# (plain and -race test binaries). Everything comes from files already on disk.
set -euo pipefail
export GOFLAGS=-mod=mod GOPROXY=off GOSUMDB=off GOTOOLCHAIN=local
cd /verif
./scripts/genmod.sh
mkdir -p bin evidence replays out
(cd harness && go test -tags verif -c -o /verif/bin/checks.test ./checks/)
(cd harness && go test -tags verif -race -c -o /verif/bin/checks.race.test ./checks/) || echo "race build failed (only C01/C20 thorough use it)"
echo setup-ok
