#!/usr/bin/env bash
# usage: quicksweep.sh <seed>... : every quick check on the current tree at the given VERIF_SEED values
cd "$(dirname "$0")/.."
for s in "$@"; do
  for c in C01 C02 C03 C04 C05 C06 C07 C08 C09 C10 C11 C12 C13 C14 C15 C16 C17 C18 C19 C20; do
    out=$(VERIF_SEED=$s ./check $c quick 2>&1); rc=$?
    echo "seed=$s $c rc=$rc $(echo "$out" | grep "^\[$c" | tail -1)"
    echo "$out" | grep -A2 "^VIOLATION\|^INCONCL" | head -9
  done
done
