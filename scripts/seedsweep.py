#!/usr/bin/env python3
"""Applies every confirmed seeded change under /verif/seeded to /repo in turn, runs the quick check of
its property, reverts, and records what the check reported in /verif/seeded/results.json."""
import json, os, subprocess, sys, glob, re
os.chdir('/verif')
names = sys.argv[1:] or sorted(os.path.basename(d.rstrip('/')) for d in glob.glob('seeded/*/'))
res = {}
if os.path.exists('seeded/results.json'):
    res = json.load(open('seeded/results.json'))
for n in names:
    meta = json.load(open(f'seeded/{n}/meta.json'))
    prop = meta['property']
    if subprocess.run(['git', '-C', '/repo', 'diff', '--quiet']).returncode != 0:
        print('/repo dirty'); sys.exit(9)
    if subprocess.run(['git', '-C', '/repo', 'apply', f'/verif/seeded/{n}/patch.diff']).returncode != 0:
        res[n] = {'property': prop, 'applies': False}; continue
    try:
        p = subprocess.run(['./check', prop, 'quick'], capture_output=True, text=True)
    finally:
        subprocess.run(['git', '-C', '/repo', 'checkout', '--', '.'])
    sigs = []
    for m in re.finditer(r'signature: (.*)', p.stdout):
        if m.group(1) not in sigs: sigs.append(m.group(1))
    head = subprocess.run(['git', '-C', '/repo', 'rev-parse', '--short', 'HEAD'], capture_output=True, text=True).stdout.strip()
    res[n] = {'property': prop, 'applies': True, 'exit': p.returncode, 'detected': p.returncode == 1, 'distinct_signatures': len(sigs), 'signatures': sigs[:4], 'repo_head': head}
    print(n, prop, 'exit', p.returncode, sigs[:2], flush=True)
    json.dump(res, open('seeded/results.json', 'w'), indent=1, ensure_ascii=False)
