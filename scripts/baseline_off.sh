#!/usr/bin/env bash
# Runs the repository's own test suite with the `verif` guard OFF (no -tags verif):
# the same command as /root/.vp/BASELINE.json, reduced to the single Go module of /repo.
set -uo pipefail
export GOFLAGS=-mod=mod GOPROXY=off GOSUMDB=off GOTOOLCHAIN=local
cd /repo && go test -json -vet=off -count=1 -timeout 25m ./...
