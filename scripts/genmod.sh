#!/usr/bin/env bash
# Regenerates /verif/harness/go.mod and go.sum from /repo's current go.mod so that the
# harness always links the working tree of /repo (replace => /repo) with exactly the
# dependency versions (and replace directives) the repository itself uses.
set -euo pipefail
H=${VERIF_ROOT:-/verif}/harness
R=${VERIF_REPO:-/repo}
tmp=$(mktemp "$H/.go.mod.XXXXXX")
{
  echo "module verif/harness"
  echo
  grep -E '^go [0-9]' "$R/go.mod"
  echo
  # the repo's own require blocks, verbatim (keeps every indirect pin)
  awk '/^require \(/{p=1} p{print} p&&/^\)/{p=0;print ""}' "$R/go.mod"
  echo "require ("
  echo "	github.com/haqq-network/haqq v0.0.0"
  echo ")"
  echo
  awk '/^replace \(/{p=1} p{print} p&&/^\)/{p=0;print ""}' "$R/go.mod"
  echo "replace github.com/haqq-network/haqq => $R"
} > "$tmp"
if ! cmp -s "$tmp" "$H/go.mod" 2>/dev/null; then mv "$tmp" "$H/go.mod"; else rm -f "$tmp"; fi
sort -u "$R/go.sum" > "$H/.go.sum.new"
if ! cmp -s "$H/.go.sum.new" "$H/go.sum" 2>/dev/null; then mv "$H/.go.sum.new" "$H/go.sum"; else rm -f "$H/.go.sum.new"; fi
